/-
Lemma L-sum and the sub-family facts used by the ORM model of govc (engine/orm.go, engine/iter.go).

The ghost aggregates of /verif/spec/ecocredit.spec are sums of a real-valued summand over the rows of a
table, grouped by a ghost key.  The write rules of the ORM model update an aggregate with the "delta
rule"; the iterator model assumes that prefix sums of non-negative summands are monotone and bounded by
the aggregate.  Tables are finite maps: here a finite set `s` of primary keys that are present and a
summand `f` defined on keys.  For a fixed ghost key the summand of a row is `f k` if the row belongs
to that ghost key and `0` otherwise, so it suffices to state the facts for plain sums over `s`.
-/
import Mathlib

open Finset BigOperators

variable {K : Type*} [DecidableEq K]

/-- Update of an existing row: the sum changes by (new summand - old summand). -/
theorem lsum_update (s : Finset K) (f g : K → ℝ) (k : K) (hk : k ∈ s)
    (hfg : ∀ j ∈ s, j ≠ k → g j = f j) :
    ∑ j ∈ s, g j = ∑ j ∈ s, f j - f k + g k := by
  have hf : ∑ j ∈ s, f j = f k + ∑ j ∈ s.erase k, f j := by
    rw [← Finset.add_sum_erase s f hk]
  have hg : ∑ j ∈ s, g j = g k + ∑ j ∈ s.erase k, g j := by
    rw [← Finset.add_sum_erase s g hk]
  have he : ∑ j ∈ s.erase k, g j = ∑ j ∈ s.erase k, f j := by
    apply Finset.sum_congr rfl
    intro j hj
    exact hfg j (Finset.mem_of_mem_erase hj) (Finset.ne_of_mem_erase hj)
  rw [hg, hf, he]; ring

/-- Insertion of a new row: the sum grows by the new summand. -/
theorem lsum_insert (s : Finset K) (f g : K → ℝ) (k : K) (hk : k ∉ s)
    (hfg : ∀ j ∈ s, g j = f j) :
    ∑ j ∈ insert k s, g j = ∑ j ∈ s, f j + g k := by
  rw [Finset.sum_insert hk, Finset.sum_congr rfl hfg]; ring

/-- Deletion of a row: the sum shrinks by the old summand. -/
theorem lsum_erase (s : Finset K) (f : K → ℝ) (k : K) (hk : k ∈ s) :
    ∑ j ∈ s.erase k, f j = ∑ j ∈ s, f j - f k := by
  rw [← Finset.add_sum_erase s f hk]; ring

/-- Deleting a set of rows (DeleteRange): the sum shrinks by the sum over the deleted rows. -/
theorem lsum_sdiff (s d : Finset K) (f : K → ℝ) (hd : d ⊆ s) :
    ∑ j ∈ s \ d, f j = ∑ j ∈ s, f j - ∑ j ∈ d, f j := by
  rw [← Finset.sum_sdiff hd]; ring

/-- Sub-family bound: with non-negative summands, the sum over listed rows is at most the aggregate. -/
theorem lsum_subset_le (s d : Finset K) (f : K → ℝ) (hd : d ⊆ s) (hf : ∀ j ∈ s, 0 ≤ f j) :
    ∑ j ∈ d, f j ≤ ∑ j ∈ s, f j :=
  Finset.sum_le_sum_of_subset_of_nonneg hd (fun j hj _ => hf j hj)

/-- Prefix sums along a listed sequence of rows are monotone when the summands are non-negative. -/
theorem psum_mono (l : List K) (f : K → ℝ) (hf : ∀ k ∈ l, 0 ≤ f k) (i j : ℕ) (hij : i ≤ j) :
    ((l.take i).map f).sum ≤ ((l.take j).map f).sum := by
  obtain ⟨d, rfl⟩ := Nat.exists_eq_add_of_le hij
  induction d with
  | zero => simp
  | succ d ih =>
    have h1 := ih (Nat.le_add_right i d)
    refine le_trans h1 ?_
    rcases Nat.lt_or_ge (i + d) l.length with hlt | hge
    · rw [show i + (d + 1) = (i + d) + 1 by ring, List.take_succ]
      simp only [List.map_append, List.sum_append]
      have : 0 ≤ ((l[i + d]?).toList.map f).sum := by
        rw [List.getElem?_eq_getElem hlt]
        simp only [Option.toList_some, List.map_cons, List.map_nil, List.sum_cons, List.sum_nil, add_zero]
        exact hf _ (List.getElem_mem hlt)
      linarith
    · rw [List.take_of_length_le hge, List.take_of_length_le (by omega)]

/-- A sum of non-negative reals is non-negative (corollary used for the tradable supply, DESIGN 12.6). -/
theorem lsum_nonneg (s : Finset K) (f : K → ℝ) (hf : ∀ j ∈ s, 0 ≤ f j) : 0 ≤ ∑ j ∈ s, f j :=
  Finset.sum_nonneg hf

/-- Counting sums: with non-negative summands the aggregate is at least the summand of any one present
row (instantiated by the ORM model for sums with a constant positive summand, engine/orm.go). -/
theorem lsum_ge_single (s : Finset K) (f : K → ℝ) (k : K) (hk : k ∈ s) (hf : ∀ j ∈ s, 0 ≤ f j) :
    f k ≤ ∑ j ∈ s, f j :=
  Finset.single_le_sum hf hk
