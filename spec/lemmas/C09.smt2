; C09 composition lemmas: from the verified accept conditions of the row validators (contracts
; [C09.balance.accepts], [C09.supply.accepts] on the real Validate functions) and the invariants
; proved inductive over every handler (InvAmtBal / InvAmtSup of spec/ecocredit.spec, C01 second
; sentence; Inv01 for the tradable supply) to: the amounts of every reachable BatchBalance and
; BatchSupply row are accepted. Each (check-sat) must answer unsat.
(set-logic ALL)
; ---- vocabulary (same as /verif/spec/base.spec and ecocredit.spec) ----
(declare-fun decvalid (Int) Bool)
(declare-fun dv (Int) Real)
(declare-fun places (Int) Int)
(define-fun amtOK ((s Int) (p Int)) Bool (and (decvalid s) (>= (dv s) 0.0) (<= (places s) p)))
(define-fun amtFmt ((s Int) (p Int)) Bool (and (decvalid s) (<= (places s) p)))
; the part of the validators' accept conditions that concerns amounts (the conjuncts of the contracts)
(define-fun balAmountsAccepted ((t Int) (r Int) (e Int)) Bool
  (and (decvalid t) (>= (dv t) 0.0) (decvalid r) (>= (dv r) 0.0) (decvalid e) (>= (dv e) 0.0)))
(define-fun supAmountsAccepted ((t Int) (r Int) (c Int)) Bool
  (and (decvalid t) (>= (dv t) 0.0) (decvalid r) (>= (dv r) 0.0) (decvalid c) (>= (dv c) 0.0)))

(push)
(echo "lemma C09.amounts.balance: InvAmtBal of an existing balance row implies the amount conjuncts of BatchBalance.Validate")
(declare-const t Int) (declare-const r Int) (declare-const e Int) (declare-const p Int)
(assert (and (amtOK t p) (amtOK r p) (amtOK e p)))          ; InvAmtBal for a row that exists
(assert (not (balAmountsAccepted t r e)))
(check-sat)
(pop)

(push)
(echo "lemma C09.amounts.supply: InvAmtSup plus Inv01 (tradable supply = a sum of non-negative amounts) implies the amount conjuncts of BatchSupply.Validate")
(declare-const t Int) (declare-const r Int) (declare-const c Int) (declare-const p Int)
(declare-const balTE Real) (declare-const basketHeld Real)   ; ghost sums of Inv01 for this batch
(assert (and (amtFmt t p) (amtOK r p) (amtOK c p)))          ; InvAmtSup for a row that exists
(assert (= (dv t) (+ balTE basketHeld)))                     ; Inv01, first conjunct
; lemma L-sum (spec/lean/LSum.lean, lsum_nonneg): a ghost sum of terms that are all non-negative is non-negative;
; the terms are the tradable+escrowed balances (InvAmtBal) and the basket balances (InvAmtK)
(assert (and (>= balTE 0.0) (>= basketHeld 0.0)))
(assert (not (supAmountsAccepted t r c)))
(check-sat)
(pop)

(push)
(echo "lemma C09.order.quantity: InvOrd of an open sell order implies the quantity conjuncts of SellOrder.Validate (non-empty, valid, non-negative)")
(declare-const q Int) (declare-const p Int) (declare-const EMPTY Int)
; the empty string parses as zero (NewDecFromString replaces "" by "0"; [C19.parse.val] for "0")
(assert (and (decvalid EMPTY) (= (dv EMPTY) 0.0)))
(assert (and (decvalid q) (> (dv q) 0.0) (<= (places q) p)))   ; InvOrd, quantity conjuncts
(assert (not (and (not (= q EMPTY)) (decvalid q) (>= (dv q) 0.0))))
(check-sat)
(pop)
