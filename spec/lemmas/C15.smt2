; C15 composition lemmas: from the contracts of Validate / ToIRI / ParseIRI (verified on the real
; code by govc) and the assumed facts A1-A5 to the statements of the property.
; Each (check-sat) must answer unsat.
(set-logic ALL)
; ---- vocabulary (same as /verif/spec/base.spec) ----
(declare-fun bcode ((Array Int Int) Int Int) Int)
(declare-fun strcat (Int Int) Int)
(declare-fun strlen (Int) Int)
(declare-fun strbyte (Int Int) Int)
(declare-fun substr (Int Int Int) Int)
(declare-fun strprefix (Int Int) Bool)
(declare-fun splitn (Int Int) Int)
(declare-fun splitpart (Int Int Int) Int)
(declare-fun strnodot (Int) Bool)
(declare-fun b58 (Int Int) Int)
(declare-fun b58valid (Int) Bool)
(declare-fun b58.code (Int) Int)
(declare-fun b58.ver (Int) Int)
(declare-const REGEN Int)   ; "regen:"
(declare-const DOT Int)     ; "."
(declare-const RDF Int)     ; "rdf"
(define-fun alnumlow ((c Int)) Bool (or (and (<= 48 c) (<= c 57)) (and (<= 97 c) (<= c 122))))
; ---- assumed facts ----
; A1 byte strings are identified with an injective code (engine model of []byte values)
(assert (forall ((a (Array Int Int)) (n Int) (b (Array Int Int)) (m Int))
  (! (=> (= (bcode a 0 n) (bcode b 0 m)) (and (= n m) (forall ((i Int)) (=> (and (<= 0 i) (< i n)) (= (select a i) (select b i))))))
     :pattern ((bcode a 0 n) (bcode b 0 m)))))
; A2 base58check: CheckDecode inverts CheckEncode (assumed contract pair), output has no '.'
(assert (forall ((c Int) (v Int)) (! (and (= (b58.code (b58 c v)) c) (= (b58.ver (b58 c v)) v) (b58valid (b58 c v)) (strnodot (b58 c v))) :pattern ((b58 c v)))))
; A3 string shape: length of the literal, prefix, slicing off a prefix
(assert (= (strlen REGEN) 6))
(assert (forall ((x Int)) (! (and (strprefix REGEN (strcat REGEN x)) (= (substr (strcat REGEN x) 6 (strlen (strcat REGEN x))) x) (not (= (strcat REGEN x) 0))) :pattern ((strcat REGEN x)))))
; A4 string shape: splitting  x ++ "." ++ e  at "." when neither part contains '.'
(assert (forall ((x Int) (e Int)) (! (=> (and (strnodot x) (strnodot e))
    (and (= (splitn (strcat x (strcat DOT e)) DOT) 2) (= (splitpart (strcat x (strcat DOT e)) DOT 0) x) (= (splitpart (strcat x (strcat DOT e)) DOT 1) e)))
    :pattern ((strcat x (strcat DOT e))))))
; A5 a string whose bytes are all in [0-9a-z] contains no '.'; "rdf" contains none
(assert (forall ((e Int)) (! (=> (forall ((j Int)) (=> (and (<= 0 j) (< j (strlen e))) (alnumlow (strbyte e j)))) (strnodot e)) :pattern ((strnodot e)))))
(assert (strnodot RDF))

; ---- two raw content hashes a, b as produced/consumed by the code under contract ----
(declare-const a.alg Int) (declare-const a.hlen Int) (declare-const a.h (Array Int Int)) (declare-const a.ext Int)
(declare-const b.alg Int) (declare-const b.hlen Int) (declare-const b.h (Array Int Int)) (declare-const b.ext Int)
(declare-const pa (Array Int Int)) (declare-const pb (Array Int Int))
(define-fun rawValid ((alg Int) (hlen Int) (ext Int)) Bool     ; postcondition of (*ContentHash_Raw).Validate [C15.valid.*]
  (and (<= 20 hlen) (<= hlen 64) (not (= alg 0)) (<= 2 (strlen ext)) (<= (strlen ext) 6)
       (forall ((j Int)) (=> (and (<= 0 j) (< j (strlen ext))) (alnumlow (strbyte ext j))))))
(define-fun rawPayload ((p (Array Int Int)) (alg Int) (hlen Int) (h (Array Int Int))) Bool   ; [C15.raw.payload]
  (and (= (select p 0) 0) (= (select p 1) alg) (forall ((j Int)) (=> (and (<= 0 j) (< j hlen)) (= (select p (+ j 2)) (select h j))))))
(define-fun rawIri ((p (Array Int Int)) (hlen Int) (ext Int)) Int                           ; [C15.raw.string]
  (strcat REGEN (strcat (b58 (bcode p 0 (+ hlen 2)) 0) (strcat DOT ext))))

(push)
(echo "lemma C15.raw.injective: valid raw hashes with the same IRI are identical")
(assert (and (rawValid a.alg a.hlen a.ext) (rawValid b.alg b.hlen b.ext) (rawPayload pa a.alg a.hlen a.h) (rawPayload pb b.alg b.hlen b.h)))
(assert (= (rawIri pa a.hlen a.ext) (rawIri pb b.hlen b.ext)))
; parse both sides with the verified ParseIRI facts is the same as cancelling: use A3/A4 through the parse view
(assert (not (and (= a.alg b.alg) (= a.hlen b.hlen) (= a.ext b.ext) (forall ((j Int)) (=> (and (<= 0 j) (< j a.hlen)) (= (select a.h j) (select b.h j)))))))
(check-sat)
(pop)

(push)
(echo "lemma C15.raw.roundtrip: ParseIRI(ToIRI(a)) succeeds and returns a")
(declare-const dec (Array Int Int)) (declare-const declen Int)
(declare-const r.alg Int) (declare-const r.hlen Int) (declare-const r.h (Array Int Int)) (declare-const r.ext Int) (declare-const parse.ok Bool) (declare-const r.israw Bool)
(assert (and (rawValid a.alg a.hlen a.ext) (rawPayload pa a.alg a.hlen a.h)))
(define-fun iri () Int (rawIri pa a.hlen a.ext))
(define-fun rest () Int (substr iri 6 (strlen iri)))
(define-fun hashPart () Int (splitpart rest DOT 0))
(define-fun ext () Int (splitpart rest DOT 1))
; postconditions of ParseIRI [C15.parse.shape/raw/total], with dec = the bytes CheckDecode returned
(assert (=> parse.ok (= (bcode dec 0 declen) (b58.code hashPart))))
(assert (= (bcode dec 0 declen) (b58.code hashPart)))   ; CheckDecode contract: decoded bytes have code b58.code(input) whenever it succeeds; dec is that slice
(assert (=> (and (not (= iri 0)) (strprefix REGEN iri) (= (splitn rest DOT) 2) (b58valid hashPart) (= (b58.ver hashPart) 0)
                 (or (and (>= declen 2) (= (select dec 0) 0)) (and (>= declen 4) (= (select dec 0) 1) (= ext RDF)))) parse.ok))
(assert (=> (and parse.ok r.israw) (and (= (select dec 0) 0) (= r.alg (select dec 1)) (= r.ext ext) (= r.hlen (- declen 2))
                 (forall ((j Int)) (=> (and (<= 0 j) (< j (- declen 2))) (= (select r.h j) (select dec (+ j 2))))))))
(assert (=> parse.ok (or r.israw (and (= (select dec 0) 1)))))
(assert (not (and parse.ok r.israw (= r.alg a.alg) (= r.hlen a.hlen) (= r.ext a.ext)
                  (forall ((j Int)) (=> (and (<= 0 j) (< j a.hlen)) (= (select r.h j) (select a.h j)))))))
(check-sat)
(pop)

; ---- graph content hashes ----
(declare-const a.c14n Int) (declare-const a.mt Int) (declare-const b.c14n Int) (declare-const b.mt Int)
(define-fun graphValid ((alg Int) (hlen Int) (c14n Int)) Bool (and (<= 20 hlen) (<= hlen 64) (not (= alg 0)) (not (= c14n 0))))   ; [C15.valid.graph]
(define-fun graphPayload ((p (Array Int Int)) (c14n Int) (mt Int) (alg Int) (hlen Int) (h (Array Int Int))) Bool          ; [C15.graph.payload]
  (and (= (select p 0) 1) (= (select p 1) c14n) (= (select p 2) mt) (= (select p 3) alg)
       (forall ((j Int)) (=> (and (<= 0 j) (< j hlen)) (= (select p (+ j 4)) (select h j))))))
(define-fun graphIri ((p (Array Int Int)) (hlen Int)) Int (strcat REGEN (strcat (b58 (bcode p 0 (+ hlen 4)) 0) (strcat DOT RDF))))  ; [C15.graph.string]

(push)
(echo "lemma C15.graph.injective: valid graph hashes with the same IRI are identical")
(assert (and (graphValid a.alg a.hlen a.c14n) (graphValid b.alg b.hlen b.c14n) (graphPayload pa a.c14n a.mt a.alg a.hlen a.h) (graphPayload pb b.c14n b.mt b.alg b.hlen b.h)))
(assert (= (graphIri pa a.hlen) (graphIri pb b.hlen)))
(assert (not (and (= a.alg b.alg) (= a.c14n b.c14n) (= a.mt b.mt) (= a.hlen b.hlen) (forall ((j Int)) (=> (and (<= 0 j) (< j a.hlen)) (= (select a.h j) (select b.h j)))))))
(check-sat)
(pop)

(push)
(echo "lemma C15.mixed.distinct: a raw and a graph hash never share an IRI")
(assert (and (rawValid a.alg a.hlen a.ext) (rawPayload pa a.alg a.hlen a.h) (graphValid b.alg b.hlen b.c14n) (graphPayload pb b.c14n b.mt b.alg b.hlen b.h)))
(assert (= (rawIri pa a.hlen a.ext) (graphIri pb b.hlen)))
(check-sat)
(pop)

; ---- third sentence: any IRI ParseIRI accepts re-encodes to the identical string ----
; further assumed facts (exercised by the conformance run conf_data):
; A1x extensionality of the byte-string code, with an explicit witness for the first difference
(declare-fun bdiff ((Array Int Int) (Array Int Int) Int) Int)
(assert (forall ((x (Array Int Int)) (y (Array Int Int)) (n Int))
  (! (or (= (bcode x 0 n) (bcode y 0 n))
         (and (<= 0 (bdiff x y n)) (< (bdiff x y n) n) (not (= (select x (bdiff x y n)) (select y (bdiff x y n))))))
     :pattern ((bcode x 0 n) (bcode y 0 n)))))
; A2b base58check is canonical: re-encoding what CheckDecode returned gives the string back (CheckDecode contract)
(assert (forall ((t Int)) (! (=> (b58valid t) (= (b58 (b58.code t) (b58.ver t)) t)) :pattern ((b58.code t)))))
; A6 a string with the prefix "regen:" is that prefix followed by the rest
(assert (forall ((t Int)) (! (=> (strprefix REGEN t) (= t (strcat REGEN (substr t 6 (strlen t))))) :pattern ((strprefix REGEN t)))))
; A7 a string that splits at "." into exactly two parts is  part0 ++ "." ++ part1
(assert (forall ((t Int)) (! (=> (= (splitn t DOT) 2) (= t (strcat (splitpart t DOT 0) (strcat DOT (splitpart t DOT 1))))) :pattern ((splitn t DOT)))))

(declare-const q Int)                                   ; any string given to the parser
(declare-const qd (Array Int Int)) (declare-const qdlen Int)   ; the bytes CheckDecode returned
(define-fun qrest () Int (substr q 6 (strlen q)))
(define-fun qhash () Int (splitpart qrest DOT 0))
(define-fun qext () Int (splitpart qrest DOT 1))
(define-fun accepted () Bool                            ; [C15.parse.shape] for a successful ParseIRI(q)
  (and (not (= q 0)) (strprefix REGEN q) (= (splitn qrest DOT) 2) (b58valid qhash) (= (b58.ver qhash) 0) (= (bcode qd 0 qdlen) (b58.code qhash))))

(push)
(echo "lemma C15.raw.reencode: an accepted IRI of a raw hash re-encodes to the identical string")
(declare-const s.alg Int) (declare-const s.hlen Int) (declare-const s.h (Array Int Int)) (declare-const s.ext Int) (declare-const ps (Array Int Int))
(assert accepted)
; [C15.parse.raw]: the returned raw hash is exactly the decoded bytes
(assert (and (>= qdlen 2) (= (select qd 0) 0) (= s.alg (select qd 1)) (= s.ext qext) (= s.hlen (- qdlen 2))
             (forall ((j Int)) (! (=> (and (<= 0 j) (< j (- qdlen 2))) (= (select s.h j) (select qd (+ j 2)))) :pattern ((select s.h j))))))
; [C15.parse.valid.raw] makes ToIRI succeed; [C15.raw.payload] in un-shifted form, [C15.raw.string]
(assert (and (= (select ps 0) 0) (= (select ps 1) s.alg)
             (forall ((i Int)) (! (=> (and (<= 2 i) (< i (+ s.hlen 2))) (= (select ps i) (select s.h (- i 2)))) :pattern ((select ps i))))))
(assert (not (= (rawIri ps s.hlen s.ext) q)))
(check-sat)
(pop)

(push)
(echo "lemma C15.graph.reencode: an accepted IRI of a graph hash re-encodes to the identical string")
(declare-const g.alg Int) (declare-const g.c14n Int) (declare-const g.mt Int) (declare-const g.hlen Int) (declare-const g.h (Array Int Int)) (declare-const pg (Array Int Int))
(assert accepted)
(assert (and (>= qdlen 4) (= (select qd 0) 1) (= qext RDF) (= g.c14n (select qd 1)) (= g.mt (select qd 2)) (= g.alg (select qd 3)) (= g.hlen (- qdlen 4))
             (forall ((j Int)) (! (=> (and (<= 0 j) (< j (- qdlen 4))) (= (select g.h j) (select qd (+ j 4)))) :pattern ((select g.h j))))))
(assert (and (= (select pg 0) 1) (= (select pg 1) g.c14n) (= (select pg 2) g.mt) (= (select pg 3) g.alg)
             (forall ((i Int)) (! (=> (and (<= 4 i) (< i (+ g.hlen 4))) (= (select pg i) (select g.h (- i 4)))) :pattern ((select pg i))))))
(assert (not (= (graphIri pg g.hlen) q)))
(check-sat)
(pop)
