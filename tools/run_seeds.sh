#!/bin/bash
# usage: tools/run_seeds.sh [seed dir names...]  (default: all of /verif/seeded)
# For every stored seeded change: apply it to /repo, run the check of its property (evidence and
# replay files go to a scratch directory, not /verif), undo it straight afterwards. Prints one line per seed.
# Refuses to run when /repo has uncommitted changes.
export GOFLAGS=-mod=mod GOPROXY=off GOSUMDB=off GOTOOLCHAIN=local
cd /repo || exit 2
if [ -n "$(git status --porcelain)" ]; then echo "REFUSED: /repo has uncommitted changes"; exit 2; fi
OUT=/var/tmp/seedrun; rm -rf $OUT; mkdir -p $OUT
seeds="$@"; [ -z "$seeds" ] && seeds=$(ls /verif/seeded)
miss=0
for s in $seeds; do
  id=${s%%-*}
  P=/verif/seeded/$s/patch.diff
  git apply "$P" || { echo "$s: PATCH DOES NOT APPLY"; miss=1; continue; }
  /verif/bin/govc check -prop $id -tier quick -out $OUT > $OUT/$s.log 2>&1; rc=$?
  git apply -R "$P"
  [ -n "$(git status --porcelain)" ] && { echo "$s: REVERT FAILED"; exit 2; }
  kinds=$(grep -o "(refuted)\|(undecided[^)]*)\|(left-verifiable-subset)\|(vacuous)\|(bounded[^)]*)\|(fail)\|(unclassified-handler)\|([a-z-]*)" $OUT/$s.log | sort | uniq -c | tr '\n' ' ')
  first=$(grep VIOLATION $OUT/$s.log | head -1 | sed 's/.*obligation=//' | cut -c1-110)
  repro=$(grep -l "REPRODUCED" $OUT/replay/$id/* 2>/dev/null | head -1)
  if [ $rc -eq 0 ]; then echo "$s: MISSED (exit 0)"; miss=1; else echo "$s: caught exit=$rc $kinds first: $first ${repro:+[replayed]}"; fi
done
rm -rf $OUT/replay $OUT/evidence
exit $miss
