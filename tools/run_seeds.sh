#!/bin/bash
# usage: tools/run_seeds.sh [seed dir names...]  (default: all of /verif/seeded)
# Must-fail corpus. For every stored seeded change: apply it to a SCRATCH CLONE of /repo's HEAD (under
# /var/tmp, removed afterwards; /repo itself is not touched), run the check of its property against that
# clone (GOVC_REPO; evidence and replay files go to a scratch directory, not /verif) and print one line.
# Equivalent to `git -C /repo apply <patch>; ./check <id>; git -C /repo apply -R <patch>`, which is what the
# corpus was first run with; the clone only makes it safe to keep working in /repo meanwhile.
export GOFLAGS=-mod=mod GOPROXY=off GOSUMDB=off GOTOOLCHAIN=local
CLONE=/var/tmp/repo-seeds.$$; OUT=/var/tmp/seedrun.$$
rm -rf $CLONE $OUT; mkdir -p $OUT
git clone -q /repo $CLONE || exit 2
trap 'rm -rf $CLONE $OUT' EXIT
seeds="$@"; [ -z "$seeds" ] && seeds=$(ls -d /verif/seeded/*/ | xargs -n1 basename)
miss=0
for s in $seeds; do
  id=${s%%-*}
  P=/verif/seeded/$s/patch.diff
  git -C $CLONE apply "$P" || { echo "$s: PATCH DOES NOT APPLY"; miss=1; continue; }
  GOVC_REPO=$CLONE /verif/bin/govc check -prop $id -tier quick -out $OUT > $OUT/$s.log 2>&1; rc=$?
  git -C $CLONE apply -R "$P"
  [ -n "$(git -C $CLONE status --porcelain)" ] && { echo "$s: REVERT FAILED"; exit 2; }
  kinds=$(grep -o "(refuted)\|(undecided[^)]*)\|(left-verifiable-subset)\|(vacuous)\|(failed)\|(unclassified-handler)" $OUT/$s.log | sort | uniq -c | tr '\n' ' ')
  first=$(grep VIOLATION $OUT/$s.log | head -1 | sed 's/.*obligation=//' | cut -c1-110)
  repro=$(grep -l "^REPRODUCED" $OUT/replay/$id/* 2>/dev/null | head -1)
  if [ $rc -eq 0 ]; then echo "$s: MISSED (exit 0)"; miss=1; else echo "$s: caught exit=$rc $kinds first: $first ${repro:+[replayed]}"; fi
  rm -rf $OUT/replay $OUT/evidence
done
exit $miss
