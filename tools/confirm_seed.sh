#!/bin/bash
# usage: confirm_seed.sh <seed dir with patch.diff, DEMO.txt, demo test> <scratch worktree>
# Confirms: demo fails with patch, passes without; existing tests of the touched module packages pass with patch.
export GOFLAGS=-mod=mod GOPROXY=off GOSUMDB=off GOTOOLCHAIN=local
SD="$1"; WT="$2"
cd "$WT" || exit 2
git checkout -q -- . ; git clean -fdq
demo=$(ls "$SD"/*_test.go | head -1)
place=$(grep -oE '(x|types)/[A-Za-z0-9_/.-]+_test\.go' "$SD/DEMO.txt" | head -1)
runcmd=$(grep -E 'go test' "$SD/DEMO.txt" | head -1 | sed 's/^ *//')
moddir=$(echo "$place" | grep -oE '^(x/[a-z]+|types)')
pkgdir=$(dirname "$place")
runname=$(echo "$runcmd" | grep -oE "\-run '?[A-Za-z0-9_|^$]+'?" | sed "s/-run //; s/'//g")
echo "seed=$SD place=$place mod=$moddir run=$runname"
cp "$demo" "$WT/$place"
rel=./${pkgdir#$moddir/}; [ "$pkgdir" = "$moddir" ] && rel=.
( cd $moddir && go test $rel -run "$runname" -count=1 > /var/tmp/seed_demo_clean.log 2>&1 ); c1=$?
git apply "$SD/patch.diff" || { echo "PATCH DOES NOT APPLY"; exit 2; }
( cd $moddir && go test $rel -run "$runname" -count=1 > /var/tmp/seed_demo_patched.log 2>&1 ); c2=$?
rm -f "$WT/$place"
( cd $moddir && go build ./... && go test -vet=off -count=1 ./... > /var/tmp/seed_suite.log 2>&1 ); c3=$?
git checkout -q -- . ; git clean -fdq
echo "RESULT demo_clean_exit=$c1 demo_patched_exit=$c2 suite_with_patch_exit=$c3"
if [ $c1 -eq 0 ] && [ $c2 -ne 0 ] && [ $c3 -eq 0 ]; then echo "CONFIRMED"; else echo "NOT-CONFIRMED"; tail -5 /var/tmp/seed_suite.log; fi
