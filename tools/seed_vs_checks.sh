#!/bin/bash
# usage: seed_vs_checks.sh <patch.diff> <prop> [<prop>...]: applies the patch to /repo, runs the checks, reverts.
P="$1"; shift
cd /repo && git apply "$P" || exit 2
for id in "$@"; do
  ( cd /verif && ./check $id quick > /var/tmp/seedchk_$id.txt 2>&1; echo "check $id exit=$?"; grep -c VIOLATION /var/tmp/seedchk_$id.txt; grep VIOLATION /var/tmp/seedchk_$id.txt | head -4 | cut -c1-250 )
done
cd /repo && git checkout -- . 
