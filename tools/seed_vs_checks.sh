#!/bin/bash
# usage: seed_vs_checks.sh <patch.diff> <prop> [<prop>...]: applies the patch to /repo, runs the checks, reverts it.
# Refuses to run when /repo has uncommitted changes (they would be at risk).
P="$(readlink -f "$1")"; shift
cd /repo || exit 2
if [ -n "$(git status --porcelain)" ]; then echo "REFUSED: /repo has uncommitted changes; commit them first"; exit 2; fi
git apply "$P" || exit 2
for id in "$@"; do
  ( cd /verif && ./check $id quick > /var/tmp/seedchk_$id.txt 2>&1; echo "check $id exit=$?"; grep -c VIOLATION /var/tmp/seedchk_$id.txt; grep VIOLATION /var/tmp/seedchk_$id.txt | head -4 | cut -c1-250 )
done
cd /repo && git apply -R "$P" && [ -z "$(git status --porcelain)" ] && echo "reverted clean"
