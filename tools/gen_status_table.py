#!/usr/bin/env python3
# Prints the per-property status table of DESIGN.md 12.18 from MANIFEST.json and the evidence files.
import json
m=json.load(open('/verif/MANIFEST.json'))
print('| id | level | tier of the evidence | functions under contract | obligations (all discharged) | bounded stand-ins / conformance runs in that run | known findings reported |')
print('|---|---|---|---|---|---|---|')
for c in m['checks']:
    pid=c['property_id']
    try: e=json.load(open('/verif/evidence/%s.json'%pid))
    except Exception: continue
    cov=e['coverage']
    b=', '.join('%s (%d cases, %s)'%(x['name'],x.get('cases',0),x['status']) for x in (cov.get('bounded_checks') or [])) or '—'
    kf=len(cov.get('known_findings_reported') or [])
    print('| %s | %s | %s | %d | %d / %d | %s | %d |'%(pid,c['level_claimed']['category'],e['tier'],len(cov['functions_under_contract']),cov['discharged'],cov['obligations'],b,kf))
for n in m.get('not_applicable',[]):
    print('| %s | not applicable | — | — | — | — | — |'%n['property_id'])
