#!/usr/bin/env python3
# helper used while writing contracts: append clause lines to a //@ func block of a zz_verif_contracts.go file
import re,sys
def add_to_block(path, func, lines, ghosts=()):
    s=open(path).read()
    blocks=re.split(r'(?m)^(?=//@ func )',s)
    done=False
    for i,b in enumerate(blocks):
        if b.split('\n',1)[0].strip()=='//@ func '+func:
            body=b.rstrip('\n').split('\n')
            # strip trailing comment-only separator lines
            tail=[]
            while body and not body[-1].startswith('//@'):
                tail.insert(0,body.pop())
            for g in ghosts:
                if not any(re.match(r'//@ ghost '+g.split()[0]+r'\b',l) for l in body):
                    body.append('//@ ghost '+g)
            body+= ['//@ '+l for l in lines]
            blocks[i]='\n'.join(body+tail)+'\n'
            done=True
    assert done, func
    open(path,'w').write(''.join(blocks))
