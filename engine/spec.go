package main

import (
	"fmt"
	"os"
	"path/filepath"
	"regexp"
	"sort"
	"strconv"
	"strings"
)

type Clause struct {
	Trusted bool // assumed at call sites, not proved for the function itself (listed as unverified)
	Label string
	Sx    *Sx
	Src   string
}

type LoopSpec struct {
	Inv     []Clause
	Updates []GhostUpdate
}

// GhostUpdate: ghost assignment executed at the end of every iteration of a loop (before the
// invariant is re-established).
type GhostUpdate struct {
	Var string
	Sx  *Sx
	Src string
}

// Capture binds a ghost name to the value of an argument (0-based, receiver included) or of the
// result ("result", "result[i]") of the first call of Callee executed on the path.
type Capture struct {
	Name, Callee, What string
	Kind               string // "bytes" (default): a byte slice; "scalar": a one-leaf value (Int-coded)
}

type GhostVar struct {
	Name, Sort string
	Init       *Sx
}

type GhostParam struct{ Name, Sort string }

type Contract struct {
	Func     string
	File     string
	Ghosts   []GhostParam
	GhostVars []GhostVar
	Lets     map[string]*Sx
	LetOrder []string
	Requires []Clause
	Panics   []Clause // panicsunless: the call panics unless the condition holds
	Captures []Capture // capture: ghost names bound to an argument/result of a call made by the function
	PanicHyp *Clause  // nopanic-lib: library panics (panicsunless clauses of callees) are obligations under this entry condition
	OrmPost  []Clause // assume-orm: instances of the ORM representation invariant (wf ...) assumed at every return
	Ensures  []Clause
	Modifies []string
	HasMod   bool
	Loops    map[int]*LoopSpec
	Assumed  bool // dependency contract: used at call sites, never verified
	Pure     bool // result is an uninterpreted function of the (scalar) arguments, no effects
	Inline   bool // executed in place at call sites
	NoPanic  bool // safety obligations are errors for this function
	Handler  bool // message handler: state effects on error paths are discarded (reverted tx)
	Props    []string
	Note     string
	Impl     string // interface-method contract: the one repository implementation every call dispatches to (closed world, checked)
}

type Macro struct {
	Name   string
	Params []string
	Body   *Sx
}

type GhostSum struct {
	Comp  string   // ghost component name
	Table string   // table whose rows are summed
	Key   []string // Go field names of the row forming the ghost key
	Term  *Sx      // summand over the row: atoms that are Go field names of the row denote the field
}

// View: how a spec function over an abstract type reads a concrete record of that type
// (used inside the package where the type is not abstract).
type View struct {
	Name, Type, Param string
	Body              *Sx
}

// TypeInv: representation invariant assumed for every parameter of a concrete type in its own package.
type TypeInv struct {
	Type string
	Body *Sx
}

type Spec struct {
	Views     map[string]*View
	TypeInvs  []*TypeInv
	Abstract  map[string]*AbstractType
	Comps     map[string]*Comp
	Tables    map[string]*Table
	TableByIf map[string]*Table // interface type string -> table
	Prelude   []string          // raw SMT commands
	Macros    map[string]*Macro
	Contracts map[string]*Contract
	GhostSums []*GhostSum
	Strs      *StrTable
	Symbols   map[string]bool // symbols declared in the prelude
	StoreIfs  map[string]bool // interface types that are ORM state stores (method X() returns a table)
	Files     []string
}

func NewSpec() *Spec {
	return &Spec{Views: map[string]*View{}, Abstract: map[string]*AbstractType{}, Comps: map[string]*Comp{}, Tables: map[string]*Table{},
		TableByIf: map[string]*Table{}, Macros: map[string]*Macro{}, Contracts: map[string]*Contract{},
		Strs: NewStrTable(), Symbols: map[string]bool{}, StoreIfs: map[string]bool{}}
}

func (sp *Spec) AddTable(t *Table) {
	if _, dup := sp.Tables[t.Name]; dup {
		return
	}
	sp.Tables[t.Name] = t
	sp.TableByIf[t.Iface.String()] = t
	for _, c := range t.Comps() {
		sp.Comps[c.Name] = c
	}
}

// LoadSpecFile reads a .spec file (s-expressions).
func (sp *Spec) LoadSpecFile(path string) error {
	b, err := os.ReadFile(path)
	if err != nil {
		return err
	}
	sp.Files = append(sp.Files, path)
	xs, err := ParseSx(string(b))
	if err != nil {
		return fmt.Errorf("%s: %v", path, err)
	}
	for _, x := range xs {
		switch x.Head() {
		case "abstract":
			a := &AbstractType{Name: unquote(x.List[1].Atom), Sort: x.List[2].String()}
			for i := 3; i+1 < len(x.List); i += 2 {
				switch x.List[i].Atom {
				case ":zero":
					a.Zero = x.List[i+1].String()
				case ":except":
					a.Except = unquote(x.List[i+1].Atom)
				case ":fact":
					a.Fact = x.List[i+1].String()
				}
			}
			sp.Abstract[a.Name] = a
		case "declare-fun", "define-fun", "declare-const", "declare-sort", "define-sort", "declare-datatypes", "declare-datatype", "define-fun-rec":
			sp.Prelude = append(sp.Prelude, x.String())
			if len(x.List) > 1 && x.List[1].IsAtom() {
				sp.Symbols[x.List[1].Atom] = true
			}
		case "assert":
			sp.Prelude = append(sp.Prelude, sp.litCodes(x).String())
		case "defview":
			// (defview name "pkg.Type" param body)
			sp.Views[x.List[1].Atom] = &View{Name: x.List[1].Atom, Type: unquote(x.List[2].Atom), Param: x.List[3].Atom, Body: x.List[4]}
		case "typeinv":
			// (typeinv "pkg.Type" body) with the value named x
			sp.TypeInvs = append(sp.TypeInvs, &TypeInv{Type: unquote(x.List[1].Atom), Body: x.List[2]})
		case "defmacro":
			m := &Macro{Name: x.List[1].List[0].Atom, Body: x.List[2]}
			for _, p := range x.List[1].List[1:] {
				m.Params = append(m.Params, p.Atom)
			}
			sp.Macros[m.Name] = m
		case "ghost":
			c := &Comp{Name: x.List[1].Atom, Ghost: true, ValSort: x.List[3].String()}
			for _, k := range x.List[2].List {
				c.KeySort = append(c.KeySort, k.String())
			}
			sp.Comps[c.Name] = c
		case "ghost-sum":
			g := &GhostSum{Comp: x.List[1].Atom, Table: x.List[2].Atom, Term: x.List[4]}
			for _, k := range x.List[3].List {
				g.Key = append(g.Key, k.Atom)
			}
			sp.GhostSums = append(sp.GhostSums, g)
			if sp.Comps[g.Comp] == nil {
				ks := make([]string, len(g.Key))
				for i := range ks {
					ks[i] = "Int"
				}
				sp.Comps[g.Comp] = &Comp{Name: g.Comp, Ghost: true, KeySort: ks, ValSort: "Real", Table: g.Table}
			}
		default:
			return fmt.Errorf("%s: unknown spec form %s", path, x.String())
		}
	}
	return nil
}

func unquote(s string) string {
	if len(s) >= 2 && s[0] == '"' && s[len(s)-1] == '"' {
		u, err := strconv.Unquote(s)
		if err == nil {
			return u
		}
		return s[1 : len(s)-1]
	}
	return s
}

var directiveRe = regexp.MustCompile(`^\s*//\s?@\s?(.*)$`)
var labelRe = regexp.MustCompile(`^([\w-]+)\[([^\]]*)\]$`)

// LoadContractFile reads contracts from a Go comment-only file (lines `//@ ...`) or from a
// .contracts file (same directives; the `//@` prefix is optional there). defaultPkg qualifies
// unqualified function names.
func (sp *Spec) LoadContractFile(path, defaultPkg string) error {
	b, err := os.ReadFile(path)
	if err != nil {
		return err
	}
	sp.Files = append(sp.Files, path)
	isGo := strings.HasSuffix(path, ".go")
	var lines []string
	for _, ln := range strings.Split(string(b), "\n") {
		if m := directiveRe.FindStringSubmatch(ln); m != nil {
			lines = append(lines, m[1])
		} else if !isGo {
			t := strings.TrimSpace(ln)
			if t == "" || strings.HasPrefix(t, "#") {
				continue
			}
			lines = append(lines, ln)
		}
	}
	// join continuation lines (until parentheses balance)
	var dirs []string
	cur := ""
	for _, ln := range lines {
		if cur == "" {
			cur = ln
		} else {
			cur += "\n" + ln
		}
		if parenBalance(cur) <= 0 {
			dirs = append(dirs, cur)
			cur = ""
		}
	}
	if cur != "" {
		return fmt.Errorf("%s: unbalanced parentheses in directive: %s", path, cur)
	}
	imports := map[string]string{}
	var c *Contract
	for _, d := range dirs {
		d = strings.TrimSpace(d)
		if d == "" || strings.HasPrefix(d, ";") {
			continue
		}
		word, rest := d, ""
		if i := strings.IndexAny(d, " \t\n"); i >= 0 {
			word, rest = d[:i], strings.TrimSpace(d[i:])
		}
		label := ""
		if m := labelRe.FindStringSubmatch(word); m != nil {
			word, label = m[1], m[2]
		}
		need := func() error {
			if c == nil {
				return fmt.Errorf("%s: directive %q before any func", path, d)
			}
			return nil
		}
		switch word {
		case "import":
			parts := strings.Fields(rest)
			if len(parts) != 2 {
				return fmt.Errorf("%s: bad import %q", path, d)
			}
			imports[parts[0]] = parts[1]
		case "func":
			name := qualifyFunc(rest, imports, defaultPkg)
			if _, dup := sp.Contracts[name]; dup {
				return fmt.Errorf("%s: duplicate contract for %s", path, name)
			}
			c = &Contract{Func: name, File: path, Loops: map[int]*LoopSpec{}, Lets: map[string]*Sx{}}
			sp.Contracts[name] = c
		case "ghost":
			if err := need(); err != nil {
				return err
			}
			parts := strings.SplitN(rest, " ", 2)
			c.Ghosts = append(c.Ghosts, GhostParam{parts[0], strings.TrimSpace(parts[1])})
		case "capture":
			if err := need(); err != nil {
				return err
			}
			parts := strings.Fields(rest)
			if len(parts) != 3 && len(parts) != 4 {
				return fmt.Errorf("%s: bad capture %q (want: capture <name> <callee> <arg index|result> [scalar])", path, d)
			}
			cp := Capture{Name: parts[0], Callee: qualifyFunc(parts[1], imports, defaultPkg), What: parts[2], Kind: "bytes"}
			if len(parts) == 4 {
				cp.Kind = parts[3]
			}
			c.Captures = append(c.Captures, cp)
		case "ghostvar":
			if err := need(); err != nil {
				return err
			}
			parts := strings.SplitN(rest, " ", 3)
			if len(parts) < 3 {
				return fmt.Errorf("%s: bad ghostvar %q", path, d)
			}
			sx, err := ParseOne(parts[2])
			if err != nil {
				return fmt.Errorf("%s: %s: %v", path, c.Func, err)
			}
			c.GhostVars = append(c.GhostVars, GhostVar{parts[0], parts[1], sx})
		case "let":
			if err := need(); err != nil {
				return err
			}
			parts := strings.SplitN(rest, " ", 2)
			sx, err := ParseOne(expandImports(parts[1], imports))
			if err != nil {
				return fmt.Errorf("%s: %s: %v", path, c.Func, err)
			}
			c.Lets[parts[0]] = sx
			c.LetOrder = append(c.LetOrder, parts[0])
		case "nopanic-lib":
			if err := need(); err != nil {
				return err
			}
			sx, err := ParseOne(rest)
			if err != nil {
				return fmt.Errorf("%s: %s: %v", path, c.Func, err)
			}
			if label == "" {
				label = "nopanic"
			}
			c.PanicHyp = &Clause{Label: label, Sx: sx, Src: rest}
		case "assume-orm":
			if err := need(); err != nil {
				return err
			}
			sx, err := ParseOne(rest)
			if err != nil {
				return fmt.Errorf("%s: %s: %v", path, c.Func, err)
			}
			if !onlyWf(sx) {
				return fmt.Errorf("%s: %s: assume-orm admits only (wf T S key) instances and conjunctions of them", path, c.Func)
			}
			c.OrmPost = append(c.OrmPost, Clause{Label: label, Sx: sx, Src: rest})
		case "panicsunless":
			if err := need(); err != nil {
				return err
			}
			sx, err := ParseOne(rest)
			if err != nil {
				return fmt.Errorf("%s: %s: %v", path, c.Func, err)
			}
			if label == "" {
				label = fmt.Sprintf("p%d", len(c.Panics)+1)
			}
			c.Panics = append(c.Panics, Clause{Label: label, Sx: sx, Src: rest})
		case "ensures-trusted":
			if err := need(); err != nil {
				return err
			}
			sx, err := ParseOne(rest)
			if err != nil {
				return fmt.Errorf("%s: %s: %v", path, c.Func, err)
			}
			if label == "" {
				label = fmt.Sprintf("t%d", len(c.Ensures)+1)
			}
			c.Ensures = append(c.Ensures, Clause{Label: label, Sx: sx, Src: rest, Trusted: true})
		case "requires", "ensures":
			if err := need(); err != nil {
				return err
			}
			sx, err := ParseOne(expandImports(rest, imports))
			if err != nil {
				return fmt.Errorf("%s: %s: %v", path, c.Func, err)
			}
			cl := Clause{Label: label, Sx: sx, Src: rest}
			if word == "requires" {
				if cl.Label == "" {
					cl.Label = fmt.Sprintf("r%d", len(c.Requires)+1)
				}
				c.Requires = append(c.Requires, cl)
			} else {
				if cl.Label == "" {
					cl.Label = fmt.Sprintf("e%d", len(c.Ensures)+1)
				}
				c.Ensures = append(c.Ensures, cl)
			}
		case "modifies":
			if err := need(); err != nil {
				return err
			}
			c.HasMod = true
			c.Modifies = append(c.Modifies, strings.Fields(rest)...)
		case "loop":
			if err := need(); err != nil {
				return err
			}
			parts := strings.SplitN(rest, " ", 3)
			n, err := strconv.Atoi(parts[0])
			if err != nil || len(parts) < 3 {
				return fmt.Errorf("%s: bad loop directive %q", path, d)
			}
			w := parts[1]
			lab := ""
			if m := labelRe.FindStringSubmatch(w); m != nil {
				w, lab = m[1], m[2]
			}
			if w == "update" {
				p2 := strings.SplitN(strings.TrimSpace(parts[2]), " ", 2)
				if len(p2) < 2 {
					return fmt.Errorf("%s: bad loop update %q", path, d)
				}
				sx, err := ParseOne(p2[1])
				if err != nil {
					return fmt.Errorf("%s: %s: %v", path, c.Func, err)
				}
				if c.Loops[n] == nil {
					c.Loops[n] = &LoopSpec{}
				}
				c.Loops[n].Updates = append(c.Loops[n].Updates, GhostUpdate{p2[0], sx, p2[1]})
				continue
			}
			if w != "invariant" {
				return fmt.Errorf("%s: bad loop directive %q", path, d)
			}
			sx, err := ParseOne(expandImports(parts[2], imports))
			if err != nil {
				return fmt.Errorf("%s: %s: %v", path, c.Func, err)
			}
			if c.Loops[n] == nil {
				c.Loops[n] = &LoopSpec{}
			}
			if lab == "" {
				lab = fmt.Sprintf("i%d", len(c.Loops[n].Inv)+1)
			}
			c.Loops[n].Inv = append(c.Loops[n].Inv, Clause{Label: lab, Sx: sx, Src: parts[2]})
		case "assumed":
			c.Assumed = true
		case "pure":
			c.Pure = true
		case "inline":
			c.Inline = true
		case "nopanic":
			c.NoPanic = true
		case "handler":
			c.Handler = true
		case "props":
			c.Props = append(c.Props, strings.Fields(rest)...)
		case "impl":
			if err := need(); err != nil {
				return err
			}
			c.Impl = qualifyFunc(rest, imports, defaultPkg)
		case "note":
			if c.Note != "" {
				c.Note += " | "
			}
			c.Note += rest
		default:
			return fmt.Errorf("%s: unknown directive %q", path, d)
		}
	}
	return nil
}

func expandImports(s string, imports map[string]string) string {
	return s
}

// qualifyFunc turns `F`, `(T).M`, `(*T).M`, `alias.F`, `(alias.T).M` into ssa function names.
func qualifyFunc(name string, imports map[string]string, defaultPkg string) string {
	name = strings.TrimSpace(name)
	if strings.HasPrefix(name, "var ") {
		return "var " + qualifyFunc(name[4:], imports, defaultPkg)
	}
	qual := func(id string) string {
		if i := strings.Index(id, "."); i >= 0 && !strings.Contains(id, "/") {
			if p, ok := imports[id[:i]]; ok {
				return p + id[i:]
			}
		}
		if !strings.Contains(id, ".") {
			return defaultPkg + "." + id
		}
		return id
	}
	if strings.HasPrefix(name, "(") {
		end := strings.Index(name, ")")
		recv := name[1:end]
		rest := name[end+1:]
		star := ""
		if strings.HasPrefix(recv, "*") {
			star = "*"
			recv = recv[1:]
		}
		return "(" + star + qual(recv) + ")" + rest
	}
	return qual(name)
}

// LoadSpecDir loads all *.spec and *.contracts files below dir.
func (sp *Spec) LoadSpecDir(dir string) error {
	var specs, contracts []string
	filepath.Walk(dir, func(p string, info os.FileInfo, err error) error {
		if err != nil || info.IsDir() {
			return nil
		}
		if strings.HasSuffix(p, ".spec") {
			specs = append(specs, p)
		} else if strings.HasSuffix(p, ".contracts") {
			contracts = append(contracts, p)
		}
		return nil
	})
	sort.Strings(specs)
	sort.Strings(contracts)
	for _, p := range specs {
		if err := sp.LoadSpecFile(p); err != nil {
			return err
		}
	}
	for _, p := range contracts {
		if err := sp.LoadContractFile(p, ""); err != nil {
			return err
		}
	}
	return nil
}

func onlyWf(x *Sx) bool {
	switch x.Head() {
	case "wf":
		return true
	case "and":
		for _, a := range x.List[1:] {
			if !onlyWf(a) {
				return false
			}
		}
		return true
	}
	return false
}

// litCodes replaces string literals by their integer codes (strings are Int-coded).
func (sp *Spec) litCodes(x *Sx) *Sx {
	if x.IsAtom() {
		if strings.HasPrefix(x.Atom, "\"") {
			return A(fmt.Sprintf("%d", sp.Strs.Code(unquote(x.Atom))))
		}
		return x
	}
	out := &Sx{IsL: true}
	for _, a := range x.List {
		out.List = append(out.List, sp.litCodes(a))
	}
	return out
}
