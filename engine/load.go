package main

import (
	"fmt"
	"go/types"
	"os"
	"sort"
	"strings"

	"golang.org/x/tools/go/packages"
	"golang.org/x/tools/go/ssa"
	"golang.org/x/tools/go/ssa/ssautil"
)

// Program is the loaded real code: the SSA of the packages of one module directory of /repo,
// built from the current working tree with the build tag `verif`.
type Program struct {
	Dir    string
	Pkgs   []*packages.Package
	Prog   *ssa.Program
	SSA    []*ssa.Package
	byName map[string]*ssa.Function // ssa.Function.String() -> function (including methods)
	pkgs   map[string]*packages.Package
}

func LoadProgram(dir string, patterns []string) (*Program, error) {
	cfg := &packages.Config{
		Mode:       packages.LoadAllSyntax,
		Dir:        dir,
		BuildFlags: []string{"-tags=verif"},
		Env:        append(os.Environ(), "GOFLAGS=-mod=mod", "GOPROXY=off", "GOSUMDB=off", "GOTOOLCHAIN=local"),
	}
	pkgs, err := packages.Load(cfg, patterns...)
	if err != nil {
		return nil, err
	}
	var errs []string
	packages.Visit(pkgs, nil, func(p *packages.Package) {
		for _, e := range p.Errors {
			errs = append(errs, fmt.Sprintf("%s: %s", p.PkgPath, e.Msg))
		}
	})
	if len(errs) > 0 {
		if len(errs) > 10 {
			errs = errs[:10]
		}
		return nil, fmt.Errorf("package load errors:\n%s", strings.Join(errs, "\n"))
	}
	prog, spkgs := ssautil.AllPackages(pkgs, ssa.InstantiateGenerics|ssa.GlobalDebug)
	prog.Build()
	p := &Program{Dir: dir, Pkgs: pkgs, Prog: prog, SSA: spkgs, byName: map[string]*ssa.Function{}, pkgs: map[string]*packages.Package{}}
	packages.Visit(pkgs, nil, func(pk *packages.Package) { p.pkgs[pk.PkgPath] = pk })
	for fn := range ssautil.AllFunctions(prog) {
		p.byName[fn.String()] = fn
	}
	return p, nil
}

// Func finds a function by its ssa name, e.g.
// "github.com/x/y.F", "(github.com/x/y.T).M", "(*github.com/x/y.T).M".
func (p *Program) Func(name string) *ssa.Function {
	if f, ok := p.byName[name]; ok {
		return f
	}
	// methods may not have been collected by AllFunctions if unreachable: look up through the type.
	return nil
}

func (p *Program) SSAPkg(path string) *ssa.Package {
	for _, sp := range p.Prog.AllPackages() {
		if sp.Pkg.Path() == path {
			return sp
		}
	}
	return nil
}

// PkgFuncs returns all source-level functions and methods (incl. anonymous ones) declared in package path.
func (p *Program) PkgFuncs(path string) []*ssa.Function {
	var out []*ssa.Function
	for _, fn := range p.byName {
		if fn.Pkg != nil && fn.Pkg.Pkg.Path() == path && fn.Synthetic == "" {
			out = append(out, fn)
		}
	}
	sort.Slice(out, func(i, j int) bool { return out[i].String() < out[j].String() })
	return out
}

// LookupType finds a named type "pkgpath.Name".
func (p *Program) LookupType(q string) types.Type {
	i := strings.LastIndex(q, ".")
	if i < 0 {
		return nil
	}
	sp := p.SSAPkg(q[:i])
	if sp == nil {
		return nil
	}
	o := sp.Pkg.Scope().Lookup(q[i+1:])
	if o == nil {
		return nil
	}
	return o.Type()
}
