package main

import (
	"fmt"
	"go/token"
	"go/types"
	"sort"
	"strconv"
	"strings"

	"golang.org/x/tools/go/ssa"
)

// Obligation is one verification condition: Hyps |= Goal (or, for covers, Hyps satisfiable).
type Obligation struct {
	Name   string
	Kind   string // post, pre, loop.entry, loop.preserve, frame, safe, cover, lemma
	Label  string
	Func   string
	Hyps   []string
	Goal   string
	Cover  bool // expect sat
	Group  string // covers: one satisfiable member per group suffices
	Trace  string
	Static string // non-empty: decided without solver ("ok" or failure text)
	Src    string
	// filled by the solver stage
	Result  string
	Solver  string
	Ms      int64
	Model   string
	Output  string
	CoverOK bool
}

type loopInfo struct {
	header *ssa.BasicBlock
	body   map[*ssa.BasicBlock]bool
	ord    int
}

type frame struct {
	fn     *ssa.Function
	k      func(st *State, results []Val)
	depth  int
	con    *Contract
	loops  map[*ssa.BasicBlock]*loopInfo
	active map[*ssa.BasicBlock]bool // loop headers whose body is being executed on this path
	defers []func(st *State)
	top    bool
}

type Exec struct {
	capTypes       map[string]types.Type // static types of captured call arguments
	lastRangeBad   string // set by matcher: the range of the last ListRange/DeleteRange is rejected by the ORM
	lastOrderField *TField
	s      *Session
	fn     *ssa.Function
	con    *Contract
	entry  *State
	args   map[string]Val
	argT   map[string]types.Type
	obls   []*Obligation
	paths  int
	retOK  []*Obligation // cover candidates: return paths with nil error
	nPre   map[string]int
	nSafe  int
	maxPaths int
}

func (x *Exec) oblig(o *Obligation) {
	o.Func = x.fn.String()
	x.obls = append(x.obls, o)
}

// ---------------------------------------------------------------------------------------------
// Loop structure
// ---------------------------------------------------------------------------------------------

func analyzeLoops(fn *ssa.Function) map[*ssa.BasicBlock]*loopInfo {
	loops := map[*ssa.BasicBlock]*loopInfo{}
	if len(fn.Blocks) == 0 {
		return loops
	}
	for _, b := range fn.Blocks {
		for _, succ := range b.Succs {
			if succ.Dominates(b) { // back edge b -> succ
				li := loops[succ]
				if li == nil {
					li = &loopInfo{header: succ, body: map[*ssa.BasicBlock]bool{succ: true}}
					loops[succ] = li
				}
				// natural loop: all blocks that reach b without passing through header
				var stack []*ssa.BasicBlock
				if !li.body[b] {
					li.body[b] = true
					stack = append(stack, b)
				}
				for len(stack) > 0 {
					n := stack[len(stack)-1]
					stack = stack[:len(stack)-1]
					for _, p := range n.Preds {
						if !li.body[p] {
							li.body[p] = true
							stack = append(stack, p)
						}
					}
				}
			}
		}
	}
	var hs []*ssa.BasicBlock
	for h := range loops {
		hs = append(hs, h)
	}
	sort.Slice(hs, func(i, j int) bool { return hs[i].Index < hs[j].Index })
	for i, h := range hs {
		loops[h].ord = i + 1
	}
	return loops
}

// ---------------------------------------------------------------------------------------------
// Running
// ---------------------------------------------------------------------------------------------

func (x *Exec) get(st *State, v ssa.Value) Val {
	switch c := v.(type) {
	case *ssa.Const:
		return x.s.constVal(c)
	case *ssa.Global:
		return Ptr{Loc: x.s.globalLoc(c), Nil: "false"}
	case *ssa.Function:
		return Fn{F: c}
	case *ssa.Builtin:
		return Opaque{"builtin " + c.Name()}
	}
	if r, ok := st.regs[v]; ok {
		return r
	}
	panic(fmt.Sprintf("no value for SSA register %s (%s) in %s", v.Name(), v, v.Parent()))
}

func (s *Session) globalLoc(g *ssa.Global) *Loc {
	if l, ok := s.globals[g]; ok {
		return l
	}
	el := g.Type().(*types.Pointer).Elem()
	l := &Loc{Name: "global:" + g.String(), Typ: el, Lazy: true, Glob: g}
	s.globals[g] = l
	return l
}

func (x *Exec) runFunc(st *State, fn *ssa.Function, args []Val, bind []Val, depth int, con *Contract, top bool, k func(st *State, results []Val)) {
	if len(fn.Blocks) == 0 {
		subsetf("no body for %s", fn)
	}
	if depth > 8 {
		subsetf("inlining depth exceeded at %s", fn)
	}
	fr := &frame{fn: fn, k: k, depth: depth, con: con, loops: analyzeLoops(fn), top: top}
	for i, p := range fn.Params {
		st.regs[p] = args[i]
	}
	for i, fv := range fn.FreeVars {
		st.regs[fv] = bind[i]
	}
	x.block(st, fr, fn.Blocks[0], nil, map[*ssa.BasicBlock]bool{})
}

func (x *Exec) block(st *State, fr *frame, b *ssa.BasicBlock, pred *ssa.BasicBlock, active map[*ssa.BasicBlock]bool) {
	st.trace = append(st.trace, fmt.Sprintf("%s:%d", fr.fn.Name(), b.Index))
	// phis
	predIdx := -1
	if pred != nil {
		for i, p := range b.Preds {
			if p == pred {
				predIdx = i
				break
			}
		}
	}
	nphi := 0
	var phiVals []Val
	for _, ins := range b.Instrs {
		phi, ok := ins.(*ssa.Phi)
		if !ok {
			break
		}
		nphi++
		phiVals = append(phiVals, x.get(st, phi.Edges[predIdx]))
	}
	for i := 0; i < nphi; i++ {
		st.regs[b.Instrs[i].(*ssa.Phi)] = phiVals[i]
	}
	if li := fr.loops[b]; li != nil {
		if active[b] {
			// back edge: invariant must be preserved; path ends here
			x.loopInvariants(st, fr, li, "preserve", true)
			x.paths++
			return
		}
		x.loopInvariants(st, fr, li, "entry", true)
		x.havocLoop(st, fr, li)
		x.loopInvariants(st, fr, li, "assume", false)
		// state designator Si: the state at the start of the current iteration (the loop head of this path)
		st.iterStart = nil
		st.iterStart = st.Clone()
		na := map[*ssa.BasicBlock]bool{}
		for k, v := range active {
			na[k] = v
		}
		na[b] = true
		active = na
	}
	x.instrs(st, fr, b, nphi, active)
}

func (x *Exec) instrs(st *State, fr *frame, b *ssa.BasicBlock, from int, active map[*ssa.BasicBlock]bool) {
	for i := from; i < len(b.Instrs); i++ {
		ins := b.Instrs[i]
		switch in := ins.(type) {
		case *ssa.If:
			c := x.get(st, in.Cond).(Sc).T
			if c == "true" {
				x.block(st, fr, b.Succs[0], b, active)
				return
			}
			if c == "false" {
				x.block(st, fr, b.Succs[1], b, active)
				return
			}
			// a condition already decided by the path condition (same literal) does not fork
			nc := not(c)
			for _, h := range st.pc {
				if h == c {
					x.block(st, fr, b.Succs[0], b, active)
					return
				}
				if h == nc {
					x.block(st, fr, b.Succs[1], b, active)
					return
				}
			}
			st2 := st.Clone()
			st.assume(c)
			st2.assume(not(c))
			x.block(st, fr, b.Succs[0], b, active)
			x.block(st2, fr, b.Succs[1], b, active)
			return
		case *ssa.Jump:
			x.block(st, fr, b.Succs[0], b, active)
			return
		case *ssa.Return:
			var res []Val
			for _, r := range in.Results {
				res = append(res, x.get(st, r))
			}
			fr.k(st, res)
			return
		case *ssa.Panic:
			x.panicPath(st, fr, "explicit panic")
			return
		case *ssa.Call:
			idx := i
			x.call(st, fr, in, in.Common(), func(st *State, v Val) {
				if v != nil {
					st.regs[in] = v
				}
				x.instrs(st, fr, b, idx+1, active)
			})
			return
		case *ssa.Defer:
			cc := in.Common()
			fr2 := fr
			fr.defers = append(fr.defers, func(st *State) {
				_ = fr2
				_ = cc
			})
			if !x.isIgnorableDefer(cc) {
				subsetf("defer of %s", cc.String())
			}
		case *ssa.RunDefers:
			// only ignorable defers (iterator Close) are admitted, see Defer
		case *ssa.Go:
			subsetf("go statement")
		case *ssa.Select:
			subsetf("select")
		case *ssa.Send:
			subsetf("channel send")
		default:
			x.simple(st, fr, ins)
		}
	}
}

func (x *Exec) isIgnorableDefer(cc *ssa.CallCommon) bool {
	name := ""
	if cc.IsInvoke() {
		name = cc.Method.Name()
	} else if f := cc.StaticCallee(); f != nil {
		name = f.Name()
	}
	if f := cc.StaticCallee(); f != nil && f.Pkg != nil && f.Pkg.Pkg.Path() == "github.com/cosmos/cosmos-sdk/telemetry" {
		return true // metrics only (dropped by the translation like events and logging)
	}
	return name == "Close"
}

// panicPath: a path that ends in a panic. For message handlers this is a failed transaction
// (no effect); it only yields an obligation when the function is declared nopanic.
func (x *Exec) panicPath(st *State, fr *frame, why string) {
	x.paths++
	if x.con != nil && x.con.PanicHyp != nil && x.entry != nil {
		// conditional panic freedom: under the stated hypothesis (over the entry state) no path panics
		env := x.topEnv(x.entry, x.fn.String()+" nopanic-lib")
		env.cur = x.entry
		hyp := env.term(x.con.PanicHyp.Sx)
		x.nSafe++
		x.oblig(&Obligation{Name: fmt.Sprintf("safe.%s.explicit#%d", x.con.PanicHyp.Label, x.nSafe), Kind: "safe", Label: x.con.PanicHyp.Label,
			Hyps: append(append([]string(nil), st.pc...), hyp), Goal: "false", Trace: strings.Join(st.trace, " "), Src: why + " under " + x.con.PanicHyp.Src})
	}
	if x.con != nil && x.con.NoPanic {
		x.nSafe++
		x.oblig(&Obligation{Name: fmt.Sprintf("safe.nopanic#%d", x.nSafe), Kind: "safe", Label: "nopanic",
			Hyps: append([]string(nil), st.pc...), Goal: "false", Trace: strings.Join(st.trace, " "), Src: why})
	}
}

// assumeOrPanic: continuing past a potentially panicking operation (nil dereference, index out
// of range): the panicking case ends the path (see panicPath), the rest continues under cond.
func (x *Exec) assumeOrPanic(st *State, fr *frame, cond, why string) {
	if cond == "true" {
		return
	}
	if x.con != nil && x.con.PanicHyp != nil && strings.HasPrefix(why, "panic@") && x.entry != nil {
		env := x.topEnv(x.entry, x.fn.String()+" nopanic-lib")
		env.cur = x.entry
		hyp := env.term(x.con.PanicHyp.Sx)
		x.nSafe++
		x.oblig(&Obligation{Name: fmt.Sprintf("safe.%s.%s#%d", x.con.PanicHyp.Label, strings.TrimPrefix(why, "panic@"), x.nSafe), Kind: "safe", Label: x.con.PanicHyp.Label,
			Hyps: append(append([]string(nil), st.pc...), hyp), Goal: cond, Trace: strings.Join(st.trace, " "), Src: why + " under " + x.con.PanicHyp.Src})
	}
	if x.con != nil && x.con.NoPanic {
		x.nSafe++
		x.oblig(&Obligation{Name: fmt.Sprintf("safe.%s#%d", why, x.nSafe), Kind: "safe", Label: why,
			Hyps: append([]string(nil), st.pc...), Goal: cond, Trace: strings.Join(st.trace, " "), Src: why})
	}
	st.assume(cond)
}

func (x *Exec) simple(st *State, fr *frame, ins ssa.Instruction) {
	s := x.s
	switch in := ins.(type) {
	case *ssa.DebugRef:
		if obj, ok := in.Object().(*types.Var); ok && !in.IsAddr {
			key := fmt.Sprintf("%s.%s#%d", fr.fn.String(), obj.Name(), int(obj.Pos()))
			s.varObjs[key] = obj
			if v, ok := st.regs[in.X]; ok {
				st.names[key] = v
				st.nameSeq[key] = len(st.nameSeq)
			} else if c, ok := in.X.(*ssa.Const); ok {
				st.names[key] = s.constVal(c)
				st.nameSeq[key] = len(st.nameSeq)
			}
		}
	case *ssa.Alloc:
		el := in.Type().(*types.Pointer).Elem()
		name := in.Comment
		if name == "" {
			name = in.Name()
		}
		l := s.newLoc(st, s.fresh(fr.fn.Name()+"."+name), el, s.zeroVal(el))
		st.regs[in] = Ptr{Loc: l, Nil: "false"}
	case *ssa.Store:
		x.storeTo(st, fr, x.get(st, in.Addr), x.get(st, in.Val))
	case *ssa.UnOp:
		v := x.get(st, in.X)
		switch in.Op {
		case token.MUL:
			st.regs[in] = x.loadFrom(st, fr, v)
		case token.NOT:
			st.regs[in] = scBool(not(v.(Sc).T))
		case token.SUB:
			st.regs[in] = scInt("(- " + v.(Sc).T + ")")
		default:
			subsetf("unary operator %s", in.Op)
		}
	case *ssa.FieldAddr:
		p, ok := x.get(st, in.X).(Ptr)
		if !ok {
			subsetf("field address of non-pointer %T", x.get(st, in.X))
		}
		x.assumeOrPanic(st, fr, not(p.Nil), "nilderef")
		if p.Loc == nil && p.Arr == nil {
			// definitely nil pointer: path infeasible after the assumption above
			st.assume("false")
			p = Ptr{Loc: &Loc{Name: s.fresh("nilobj"), Typ: in.X.Type().(*types.Pointer).Elem(), Lazy: true}, Nil: "false"}
		}
		np := p
		np.Path = append(append([]int(nil), p.Path...), in.Field)
		np.Nil = "false"
		st.regs[in] = np
	case *ssa.Field:
		r, ok := x.get(st, in.X).(Rec)
		if !ok {
			subsetf("field of %T (abstract type %s?)", x.get(st, in.X), in.X.Type())
		}
		st.regs[in] = r.F[in.Field]
	case *ssa.IndexAddr:
		base := x.get(st, in.X)
		idx := x.get(st, in.Index).(Sc).T
		switch bv := base.(type) {
		case Slice:
			x.assumeOrPanic(st, fr, and("(<= 0 "+idx+")", "(< "+idx+" "+bv.Len+")"), "index")
			if bv.Arr == nil {
				st.assume("false")
				bv.Arr = &Arr{Name: s.fresh("nilarr"), Elem: in.X.Type().Underlying().(*types.Slice).Elem()}
			}
			st.regs[in] = Ptr{Arr: bv.Arr, Idx: addTerm(bv.Off, idx), Nil: "false"}
		case Ptr:
			at := in.X.Type().Underlying().(*types.Pointer).Elem().Underlying().(*types.Array)
			if at.Len() > 8 {
				av, ok := x.loadFrom(st, fr, bv).(ArrayV)
				if !ok {
					subsetf("pointer to large array without backing array")
				}
				x.assumeOrPanic(st, fr, and("(<= 0 "+idx+")", fmt.Sprintf("(< %s %d)", idx, av.N)), "index")
				st.regs[in] = Ptr{Arr: av.Arr, Idx: idx, Nil: "false"}
				return
			}
			n, err := strconv.Atoi(idx)
			if err != nil {
				subsetf("symbolic index into fixed-size array")
			}
			if int64(n) >= at.Len() {
				subsetf("constant index out of range")
			}
			np := bv
			np.Path = append(append([]int(nil), bv.Path...), n)
			st.regs[in] = np
		default:
			subsetf("IndexAddr on %T", base)
		}
	case *ssa.Index:
		base := x.get(st, in.X)
		idx := x.get(st, in.Index).(Sc).T
		switch bv := base.(type) {
		case ArrayV:
			x.assumeOrPanic(st, fr, and("(<= 0 "+idx+")", fmt.Sprintf("(< %s %d)", idx, bv.N)), "index")
			st.regs[in] = s.arrRead(st, bv.Arr, idx)
		case Rec:
			n, err := strconv.Atoi(idx)
			if err != nil {
				subsetf("symbolic index into array value")
			}
			st.regs[in] = bv.F[n]
		case Sc: // string indexing
			x.assumeOrPanic(st, fr, and("(<= 0 "+idx+")", "(< "+idx+" (strlen "+bv.T+"))"), "index")
			st.regs[in] = scInt("(strbyte " + bv.T + " " + idx + ")")
		default:
			subsetf("Index on %T", base)
		}
	case *ssa.Slice:
		x.sliceOp(st, fr, in)
	case *ssa.MakeSlice:
		ln := x.get(st, in.Len).(Sc).T
		cp := x.get(st, in.Cap).(Sc).T
		x.assumeOrPanic(st, fr, and("(>= "+ln+" 0)", "(>= "+cp+" "+ln+")"), "makeslice")
		el := in.Type().Underlying().(*types.Slice).Elem()
		a := s.newArr(st, s.fresh("make"), el, true)
		st.regs[in] = Slice{Arr: a, Off: "0", Len: ln, Cap: cp}
	case *ssa.BinOp:
		if in.Op == token.QUO || in.Op == token.REM {
			// integer division by zero is a run-time panic
			if tb, ok := in.X.Type().Underlying().(*types.Basic); ok && tb.Info()&types.IsInteger != 0 {
				if d, ok := x.get(st, in.Y).(Sc); ok {
					x.assumeOrPanic(st, fr, not(eq(d.T, "0")), "divzero")
				}
			}
		}
		st.regs[in] = x.binop(st, in)
	case *ssa.Convert:
		st.regs[in] = x.convert(st, in)
	case *ssa.ChangeType:
		st.regs[in] = x.get(st, in.X)
	case *ssa.ChangeInterface:
		st.regs[in] = x.get(st, in.X)
	case *ssa.MakeInterface:
		st.regs[in] = x.makeInterface(st, in.X.Type(), in.Type(), x.get(st, in.X))
	case *ssa.Extract:
		st.regs[in] = x.get(st, in.Tuple).(Rec).F[in.Index]
	case *ssa.MakeClosure:
		var bind []Val
		for _, b := range in.Bindings {
			bind = append(bind, x.get(st, b))
		}
		st.regs[in] = Fn{F: in.Fn.(*ssa.Function), Bind: bind}
	case *ssa.TypeAssert:
		v := x.get(st, in.X)
		if iv, ok := v.(Iface); ok && iv.Dyn != nil && !in.CommaOk && types.Identical(iv.Dyn, in.AssertedType) {
			st.regs[in] = iv.V
			return
		}
		if iv, ok := v.(Iface); ok && iv.Dyn == nil {
			// opaque interface value: the assertion succeeds or not according to an uninterpreted
			// predicate of the value and the asserted type; the value itself is unchanged
			if _, isIface := in.AssertedType.Underlying().(*types.Interface); isIface {
				uf := q("implements:" + typeKey(in.AssertedType))
				if _, done := s.declared[uf]; !done {
					s.declared[uf] = "fun"
					s.decls = append(s.decls, fmt.Sprintf("(declare-fun %s (Int) Bool)", uf))
				}
				okT := "(" + uf + " " + iv.Tok + ")"
				if in.CommaOk {
					st.regs[in] = Rec{F: []Val{Iface{Tok: ite(okT, iv.Tok, "0")}, scBool(okT)}}
				} else {
					x.assumeOrPanic(st, fr, okT, "typeassert")
					st.regs[in] = iv
				}
				return
			}
		}
		subsetf("type assertion to %s", in.AssertedType)
	case *ssa.Range:
		x.rangeInit(st, in)
	case *ssa.Next:
		x.rangeNext(st, fr, in)
	case *ssa.MakeMap:
		x.makeMap(st, in)
	case *ssa.MapUpdate:
		x.mapUpdate(st, in)
	case *ssa.Lookup:
		x.mapLookup(st, fr, in)
	default:
		subsetf("instruction %T", ins)
	}
}

func (x *Exec) loadFrom(st *State, fr *frame, v Val) Val {
	p, ok := v.(Ptr)
	if !ok {
		subsetf("load through %T", v)
	}
	x.assumeOrPanic(st, fr, not(p.Nil), "nilderef")
	if p.Arr != nil {
		return getPath(x.s.arrRead(st, p.Arr, p.Idx), p.Path)
	}
	if p.Loc == nil {
		st.assume("false")
		return Opaque{"load through nil"}
	}
	v2 := x.s.load(st, p)
	if p.Loc.Glob != nil {
		x.s.noteGlobalRead(p.Loc.Glob)
	}
	return v2
}

func (x *Exec) storeTo(st *State, fr *frame, addr Val, v Val) {
	p, ok := addr.(Ptr)
	if !ok {
		subsetf("store through %T", addr)
	}
	x.assumeOrPanic(st, fr, not(p.Nil), "nilderef")
	if p.Arr != nil {
		if len(p.Path) > 0 {
			old := x.s.arrRead(st, p.Arr, p.Idx)
			v = setPath(old, p.Path, v)
		}
		x.s.arrWrite(st, p.Arr, p.Idx, v)
		return
	}
	if p.Loc == nil {
		st.assume("false")
		return
	}
	if p.Loc.Glob != nil {
		subsetf("store to package-level variable %s", p.Loc.Glob)
	}
	x.s.store(st, p, v)
}

func (s *Session) noteGlobalRead(g *ssa.Global) {}

func (x *Exec) sliceOp(st *State, fr *frame, in *ssa.Slice) {
	s := x.s
	base := x.get(st, in.X)
	lo := "0"
	if in.Low != nil {
		lo = x.get(st, in.Low).(Sc).T
	}
	switch bv := base.(type) {
	case Slice:
		hi := bv.Len
		if in.High != nil {
			hi = x.get(st, in.High).(Sc).T
		}
		x.assumeOrPanic(st, fr, and("(<= 0 "+lo+")", "(<= "+lo+" "+hi+")", "(<= "+hi+" "+bv.Cap+")"), "slicebounds")
		st.regs[in] = Slice{Arr: bv.Arr, Off: addTerm(bv.Off, lo), Len: subTerm(hi, lo), Cap: subTerm(bv.Cap, lo)}
	case Sc: // string slicing
		hi := "(strlen " + bv.T + ")"
		if in.High != nil {
			hi = x.get(st, in.High).(Sc).T
		}
		x.assumeOrPanic(st, fr, and("(<= 0 "+lo+")", "(<= "+lo+" "+hi+")", "(<= "+hi+" (strlen "+bv.T+"))"), "slicebounds")
		sub := fmt.Sprintf("(substr %s %s %s)", bv.T, lo, hi)
		// the only fact known of a substring besides its identity: its length
		st.assume(eq("(strlen "+sub+")", subTerm(hi, lo)))
		st.regs[in] = scInt(sub)
	case Ptr: // pointer to array
		at := in.X.Type().Underlying().(*types.Pointer).Elem().Underlying().(*types.Array)
		content := x.loadFrom(st, fr, bv)
		if av, ok := content.(ArrayV); ok {
			// slicing a large array through a pointer shares its backing array
			n := strconv.FormatInt(av.N, 10)
			hi := n
			if in.High != nil {
				hi = x.get(st, in.High).(Sc).T
			}
			x.assumeOrPanic(st, fr, and("(<= 0 "+lo+")", "(<= "+lo+" "+hi+")", "(<= "+hi+" "+n+")"), "slicebounds")
			st.regs[in] = Slice{Arr: av.Arr, Off: lo, Len: subTerm(hi, lo), Cap: subTerm(n, lo)}
			return
		}
		r, ok := content.(Rec)
		if !ok {
			subsetf("slice of array of %T", content)
		}
		a := s.newArr(st, s.fresh("arr"), at.Elem(), true)
		for i, e := range r.F {
			s.arrWrite(st, a, strconv.Itoa(i), e)
		}
		n := strconv.FormatInt(at.Len(), 10)
		hi := n
		if in.High != nil {
			hi = x.get(st, in.High).(Sc).T
		}
		st.regs[in] = Slice{Arr: a, Off: lo, Len: subTerm(hi, lo), Cap: subTerm(n, lo)}
	default:
		subsetf("slice of %T", base)
	}
}

func (x *Exec) makeInterface(st *State, from, to types.Type, v Val) Val {
	if isErrorType(to) || implementsError(from) && isErrorLike(to) {
		if p, ok := v.(Ptr); ok && p.Loc != nil && p.Loc.Sentinel != "" {
			c := x.s.sentinelCode(p.Loc.Sentinel)
			return Err{c, c}
		}
		id := x.s.freshErrID()
		return Err{id, id}
	}
	return Iface{Dyn: from, V: v}
}

func implementsError(t types.Type) bool {
	return types.Implements(t, errorType.Underlying().(*types.Interface))
}
func isErrorLike(t types.Type) bool { return isErrorType(t) }

func (x *Exec) binop(st *State, in *ssa.BinOp) Val {
	a, b := x.get(st, in.X), x.get(st, in.Y)
	switch in.Op {
	case token.EQL, token.NEQ:
		e := x.equal(st, a, b, in.X.Type())
		if in.Op == token.NEQ {
			e = not(e)
		}
		return scBool(e)
	}
	as, ok1 := a.(Sc)
	bs, ok2 := b.(Sc)
	if !ok1 || !ok2 {
		subsetf("binary operator %s on %T, %T", in.Op, a, b)
	}
	tb, _ := in.X.Type().Underlying().(*types.Basic)
	isStr := tb != nil && tb.Info()&types.IsString != 0
	switch in.Op {
	case token.ADD:
		if isStr {
			return scInt("(strcat " + as.T + " " + bs.T + ")")
		}
		return scInt("(+ " + as.T + " " + bs.T + ")")
	case token.SUB:
		if tb != nil && tb.Info()&types.IsUnsigned != 0 {
			// unsigned subtraction wraps below zero (the realistic machine-arithmetic fault: an
			// unguarded a-b); additions and multiplications stay mathematical (listed assumption)
			if w := unsignedWidth(tb); w != "" {
				d := "(- " + as.T + " " + bs.T + ")"
				return scInt(ite("(>= "+as.T+" "+bs.T+")", d, "(+ "+d+" "+w+")"))
			}
		}
		return scInt("(- " + as.T + " " + bs.T + ")")
	case token.MUL:
		return scInt("(* " + as.T + " " + bs.T + ")")
	case token.QUO:
		return scInt("(go.div " + as.T + " " + bs.T + ")")
	case token.REM:
		return scInt("(go.rem " + as.T + " " + bs.T + ")")
	case token.LSS, token.LEQ, token.GTR, token.GEQ:
		op := map[token.Token]string{token.LSS: "<", token.LEQ: "<=", token.GTR: ">", token.GEQ: ">="}[in.Op]
		if isStr {
			return scBool("(str" + op + " " + as.T + " " + bs.T + ")")
		}
		return scBool("(" + op + " " + as.T + " " + bs.T + ")")
	case token.AND:
		if as.Sort == "Bool" {
			return scBool(and(as.T, bs.T))
		}
		return scInt("(bit.and " + as.T + " " + bs.T + ")")
	case token.OR:
		if as.Sort == "Bool" {
			return scBool(or(as.T, bs.T))
		}
		return scInt("(bit.or " + as.T + " " + bs.T + ")")
	case token.XOR:
		return scInt("(bit.xor " + as.T + " " + bs.T + ")")
	case token.SHL:
		if n, err := strconv.Atoi(bs.T); err == nil && n < 63 {
			return scInt(fmt.Sprintf("(* %s %d)", as.T, int64(1)<<uint(n)))
		}
		return scInt("(bit.shl " + as.T + " " + bs.T + ")")
	case token.SHR:
		if n, err := strconv.Atoi(bs.T); err == nil && n < 63 {
			return scInt(fmt.Sprintf("(div %s %d)", as.T, int64(1)<<uint(n)))
		}
		return scInt("(bit.shr " + as.T + " " + bs.T + ")")
	}
	subsetf("binary operator %s", in.Op)
	return nil
}

// unsignedWidth: 2^bits of an unsigned basic type as a decimal literal ("" when unknown)
func unsignedWidth(tb *types.Basic) string {
	switch tb.Kind() {
	case types.Uint8:
		return "256"
	case types.Uint16:
		return "65536"
	case types.Uint32:
		return "4294967296"
	case types.Uint64, types.Uint, types.Uintptr:
		return "18446744073709551616"
	}
	return ""
}

func (x *Exec) equal(st *State, a, b Val, t types.Type) string {
	switch av := a.(type) {
	case Sc:
		return eq(av.T, b.(Sc).T)
	case Err:
		bv := b.(Err)
		return eq(av.ID, bv.ID)
	case Ptr:
		bv := b.(Ptr)
		if av.Loc == nil && av.Arr == nil {
			return bv.Nil
		}
		if bv.Loc == nil && bv.Arr == nil {
			return av.Nil
		}
		same := av.Loc == bv.Loc && av.Arr == bv.Arr && av.Idx == bv.Idx && fmt.Sprint(av.Path) == fmt.Sprint(bv.Path)
		if same {
			return or(and(av.Nil, bv.Nil), and(not(av.Nil), not(bv.Nil)))
		}
		return and(av.Nil, bv.Nil)
	case Rec:
		bv := b.(Rec)
		var cs []string
		var st2 *types.Struct
		if t != nil {
			st2, _ = t.Underlying().(*types.Struct)
		}
		for i := range av.F {
			var ft types.Type
			if st2 != nil {
				ft = st2.Field(i).Type()
			}
			cs = append(cs, x.equal(st, av.F[i], bv.F[i], ft))
		}
		return and(cs...)
	case Slice:
		// only comparison with nil is legal in Go
		bv := b.(Slice)
		if bv.Arr == nil && bv.Len == "0" {
			if av.Arr == nil {
				return "true"
			}
			return x.s.sliceNil(av)
		}
		if av.Arr == nil && av.Len == "0" {
			return x.s.sliceNil(bv)
		}
	case Iface:
		bv, ok := b.(Iface)
		if ok && av.Dyn == nil && bv.Dyn == nil {
			return eq(av.Tok, bv.Tok)
		}
		if ok && av.Dyn != nil && bv.Dyn == nil && bv.Tok == "0" {
			return "false"
		}
		if ok && bv.Dyn != nil && av.Dyn == nil && av.Tok == "0" {
			return "false"
		}
	case Fn:
		bv, ok := b.(Fn)
		if ok && bv.F == nil && bv.Tok == "0" {
			if av.F != nil {
				return "false"
			}
			return eq(av.Tok, "0")
		}
	}
	subsetf("comparison of %T and %T", a, b)
	return ""
}

// sliceNil: whether a slice value is nil. Symbolic input slices carry a nil flag; made slices are non-nil.
func (s *Session) sliceNil(v Slice) string {
	if v.Arr == nil {
		return "true"
	}
	if strings.HasSuffix(v.Arr.Name, "[]") { // symbolic input slice
		n := s.declare(v.Arr.Name+"?nil", "Bool")
		s.fact(fmt.Sprintf("(=> %s (= %s 0))", n, v.Len))
		return n
	}
	return "false"
}

func (x *Exec) convert(st *State, in *ssa.Convert) Val {
	v := x.get(st, in.X)
	from, to := in.X.Type().Underlying(), in.Type().Underlying()
	fb, _ := from.(*types.Basic)
	tb, _ := to.(*types.Basic)
	if fb != nil && tb != nil && fb.Info()&types.IsInteger != 0 && tb.Info()&types.IsInteger != 0 {
		return scInt(x.s.wrapInt(v.(Sc).T, fb, tb))
	}
	if fb != nil && tb != nil && fb.Info()&types.IsString != 0 && tb.Info()&types.IsString != 0 {
		return v
	}
	// string <-> []byte share one code space: the code of a string is the content code of its bytes
	if fb != nil && fb.Info()&types.IsString != 0 && isByteSlice(in.Type()) {
		str := v.(Sc).T
		a := x.s.newArr(st, x.s.fresh("bytes"), types.Typ[types.Uint8], false)
		c := x.s.arrContent(st, a)
		ln := "(strlen " + str + ")"
		st.assume(eq(fmt.Sprintf("(bcode %s 0 %s)", c.Leaves[0], ln), str))
		st.assume(fmt.Sprintf("(forall ((i Int)) (! (=> (and (<= 0 i) (< i %s)) (= (select %s i) (strbyte %s i))) :pattern ((select %s i))))", ln, c.Leaves[0], str, c.Leaves[0]))
		return Slice{Arr: a, Off: "0", Len: ln, Cap: ln}
	}
	if tb != nil && tb.Info()&types.IsString != 0 && isByteSlice(in.X.Type()) {
		sl := v.(Slice)
		code := x.s.bcode(st, sl)
		st.assume(eq("(strlen "+code+")", sl.Len))
		return scInt(code)
	}
	if tb != nil && tb.Info()&types.IsString != 0 && fb != nil && fb.Info()&types.IsInteger != 0 {
		return scInt("(str.ofrune " + v.(Sc).T + ")")
	}
	subsetf("conversion %s -> %s", in.X.Type(), in.Type())
	return nil
}

// wrapInt models integer conversions exactly (two's complement truncation); integers are otherwise
// mathematical.
func (s *Session) wrapInt(t string, from, to *types.Basic) string {
	flo, fhi, ok1 := intRange(from)
	tlo, thi, ok2 := intRange(to)
	if !ok1 || !ok2 {
		return t
	}
	if cmpNum(tlo, flo) <= 0 && cmpNum(fhi, thi) <= 0 {
		return t // widening
	}
	mod, signed, _ := intModulus(to)
	if n, err := strconv.ParseInt(t, 10, 64); err == nil && !signed {
		m, err2 := strconv.ParseUint(mod, 10, 64)
		if err2 == nil && n >= 0 {
			return strconv.FormatUint(uint64(n)%m, 10)
		}
	}
	if !signed {
		return fmt.Sprintf("(mod %s %s)", t, mod)
	}
	return fmt.Sprintf("(wrap.signed %s %s)", t, mod)
}

func cmpNum(a, b string) int {
	pa, pb := parseBig(a), parseBig(b)
	return pa.Cmp(pb)
}
