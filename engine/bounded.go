package main

import (
	"encoding/json"
	"fmt"
	"os"
	"os/exec"
	"path/filepath"
	"strings"
	"time"
)

// Bounded stand-ins (DESIGN.md): enumerations run against the real functions through
// `go test -overlay`. They are labelled bounded in the evidence and never counted as discharged
// proof obligations; a failing case is a violation with a concrete failing input.
type boundedResult struct {
	Name   string   `json:"name"`
	Bound  string   `json:"bound"`
	Cases  int      `json:"cases"`
	Fails  []string `json:"failures,omitempty"`
	WallS  float64  `json:"wall_s"`
	Status string   `json:"status"`
	Cats   map[string][]string `json:"failures_by_kind,omitempty"`
}

func runBounded(name string) boundedResult {
	res := boundedResult{Name: name, Status: "error"}
	tp := filepath.Join("/verif/bounded", name+".tmpl")
	b, err := os.ReadFile(tp)
	if err != nil {
		res.Fails = []string{err.Error()}
		return res
	}
	src := string(b)
	module, pkgdir := "", ""
	for _, ln := range strings.Split(src, "\n") {
		if strings.HasPrefix(ln, "//govc:module ") {
			module = strings.TrimSpace(ln[14:])
		}
		if strings.HasPrefix(ln, "//govc:pkgdir ") {
			pkgdir = strings.TrimSpace(ln[14:])
		}
		if strings.HasPrefix(ln, "//govc:bound ") {
			res.Bound = strings.TrimSpace(ln[13:])
		}
	}
	scratch, _ := os.MkdirTemp("/var/tmp", "govc-bounded.")
	defer os.RemoveAll(scratch)
	tf := filepath.Join(scratch, "zz_verif_bounded_test.go")
	os.WriteFile(tf, []byte(src), 0o644)
	ov := map[string]map[string]string{"Replace": {filepath.Join(repoRoot(), pkgdir, "zz_verif_bounded_test.go"): tf}}
	ob, _ := json.Marshal(ov)
	of := filepath.Join(scratch, "overlay.json")
	os.WriteFile(of, ob, 0o644)
	rel := "./" + strings.TrimPrefix(strings.TrimPrefix(pkgdir, module), "/")
	if rel == "./" {
		rel = "."
	}
	cmd := exec.Command("go", "test", "-overlay", of, "-vet=off", "-count=1", "-timeout", "600s", "-run", "TestVerifBounded", "-v", rel)
	cmd.Dir = filepath.Join(repoRoot(), module)
	cmd.Env = append(os.Environ(), "GOFLAGS=-mod=mod", "GOPROXY=off", "GOSUMDB=off", "GOTOOLCHAIN=local")
	t0 := time.Now()
	out, _ := cmd.CombinedOutput()
	res.WallS = time.Since(t0).Seconds()
	done := false
	for _, ln := range strings.Split(string(out), "\n") {
		ln = strings.TrimSpace(ln)
		if strings.HasPrefix(ln, "BOUNDED-FAIL ") {
			msg := ln[13:]
			// optional category: "BOUNDED-FAIL [kind] text" - each kind is reported as its own obligation
			cat := ""
			if strings.HasPrefix(msg, "[") {
				if j := strings.Index(msg, "]"); j > 0 {
					cat = msg[1:j]
				}
			}
			if res.Cats == nil {
				res.Cats = map[string][]string{}
			}
			if len(res.Cats[cat]) < 5 {
				res.Cats[cat] = append(res.Cats[cat], msg)
			}
			if len(res.Fails) < 20 {
				res.Fails = append(res.Fails, msg)
			}
		}
		if strings.HasPrefix(ln, "BOUNDED-DONE ") {
			done = true
			fmt.Sscanf(ln, "BOUNDED-DONE cases=%d", &res.Cases)
		}
	}
	switch {
	case !done:
		res.Status = "error"
		res.Fails = append(res.Fails, "bounded check did not complete: "+firstLines(string(out), 6))
	case len(res.Fails) > 0:
		res.Status = "failed"
	default:
		res.Status = "ok"
	}
	return res
}
