package main

import (
	"fmt"
	"go/constant"
	"go/types"
	"strconv"
	"strings"

	"golang.org/x/tools/go/ssa"
)

func (x *Exec) call(st *State, fr *frame, site ssa.Instruction, cc *ssa.CallCommon, k func(st *State, v Val)) {
	s := x.s
	var args []Val
	if cc.IsInvoke() {
		recv := x.get(st, cc.Value)
		// concrete dynamic type known: devirtualise
		if iv, ok := recv.(Iface); ok && iv.Dyn != nil {
			m := s.Prog.Prog.LookupMethod(iv.Dyn, cc.Method.Pkg(), cc.Method.Name())
			if m != nil {
				args = append(args, iv.V)
				for _, a := range cc.Args {
					args = append(args, x.get(st, a))
				}
				x.callFunc(st, fr, site, m, args, nil, k)
				return
			}
		}
		for _, a := range cc.Args {
			args = append(args, x.get(st, a))
		}
		ifn := ifaceName(cc.Value.Type())
		if x.ormInvoke(st, fr, site, ifn, cc, recv, args, k) {
			return
		}
		name := "(" + ifn + ")." + cc.Method.Name()
		if con := s.Spec.Contracts[name]; con != nil && con.Impl != "" {
			// closed world: the interface has exactly one implementation in the repository packages
			// loaded (checked here); the call is that implementation's, on an unknown receiver value
			m := s.Prog.Func(con.Impl)
			if m == nil || m.Signature.Recv() == nil {
				subsetf("contract of %s: implementation %s not found", name, con.Impl)
			}
			if why := s.closedWorld(cc.Value.Type(), m); why != "" {
				subsetf("contract of %s: %s", name, why)
			}
			s.Assumed["closed world: every "+ifn+" is a "+m.Signature.Recv().Type().String()+" (the only implementation in the repository packages loaded; wiring of the module is not under contract)"] = true
			rv := s.symVal(s.fresh("impl:"+cc.Method.Name()), m.Signature.Recv().Type())
			x.callFunc(st, fr, site, m, append([]Val{rv}, args...), nil, k)
			return
		}
		if con := s.Spec.Contracts[name]; con != nil {
			sig := cc.Method.Type().(*types.Signature)
			x.applyContract(st, fr, con, name, sig, nil, append([]Val{recv}, args...), x.captureResult(name, k))
			return
		}
		// error.Error() on an error value
		if isErrorType(cc.Value.Type()) && cc.Method.Name() == "Error" {
			e := recv.(Err)
			k(st, scInt("(err.text "+e.ID+")"))
			return
		}
		subsetf("no contract for interface method %s", name)
	}
	for _, a := range cc.Args {
		args = append(args, x.get(st, a))
	}
	switch callee := cc.Value.(type) {
	case *ssa.Builtin:
		x.builtin(st, fr, callee, cc, args, k)
		return
	case *ssa.Function:
		x.callFunc(st, fr, site, callee, args, nil, k)
		return
	case *ssa.MakeClosure:
		fv := x.get(st, callee).(Fn)
		x.callFunc(st, fr, site, fv.F, args, fv.Bind, k)
		return
	}
	// dynamic call through a function value
	fv := x.get(st, cc.Value)
	if f, ok := fv.(Fn); ok && f.F != nil {
		x.callFunc(st, fr, site, f.F, args, f.Bind, k)
		return
	}
	// function-typed package-level variable (e.g. sdk.NewInt): contract keyed by the variable
	if u, ok := cc.Value.(*ssa.UnOp); ok {
		if g, ok := u.X.(*ssa.Global); ok {
			name := "var " + g.Pkg.Pkg.Path() + "." + g.Name()
			if con := s.Spec.Contracts[name]; con != nil {
				sig := cc.Value.Type().Underlying().(*types.Signature)
				x.applyContract(st, fr, con, name, sig, nil, args, k)
				return
			}
			subsetf("no contract for call through function variable %s", name)
		}
	}
	subsetf("dynamic call %s", cc.String())
}

func ifaceName(t types.Type) string {
	return types.TypeString(types.Unalias(t), nil)
}

// captureResult wraps a continuation so that `capture` directives naming this callee (results only) are bound.
func (x *Exec) captureResult(name string, k func(st *State, v Val)) func(st *State, v Val) {
	if x.con == nil {
		return k
	}
	for _, c := range x.con.Captures {
		if c.Callee != name || !strings.HasPrefix(c.What, "result") {
			continue
		}
		cc := c
		prev := k
		k = func(st *State, v Val) {
			if _, done := st.caps[cc.Name]; !done && v != nil {
				cv := v
				if strings.HasPrefix(cc.What, "result[") {
					i, _ := strconv.Atoi(strings.TrimSuffix(cc.What[7:], "]"))
					if r, ok := v.(Rec); ok && i < len(r.F) {
						cv = r.F[i]
					}
				}
				st.caps[cc.Name] = cv
			}
			prev(st, v)
		}
	}
	return k
}

func (x *Exec) callFunc(st *State, fr *frame, site ssa.Instruction, fn *ssa.Function, args []Val, bind []Val, k0 func(st *State, v Val)) {
	s := x.s
	name := fn.String()
	k := k0
	if x.con != nil {
		for _, c := range x.con.Captures {
			if c.Callee != name {
				continue
			}
			if _, done := st.caps[c.Name]; done {
				continue
			}
			if idx, err := strconv.Atoi(c.What); err == nil {
				if idx < len(args) {
					st.caps[c.Name] = args[idx]
					if idx < len(fn.Params) {
						if x.capTypes == nil {
							x.capTypes = map[string]types.Type{}
						}
						x.capTypes[c.Name] = fn.Params[idx].Type()
					}
				}
				continue
			}
			// "<arg index>.<field>": a field of a struct-valued argument
			if dot := strings.Index(c.What, "."); dot > 0 {
				if idx, err := strconv.Atoi(c.What[:dot]); err == nil && idx < len(args) && idx < len(fn.Params) {
					if stt, ok := fn.Params[idx].Type().Underlying().(*types.Struct); ok {
						if r, ok := args[idx].(Rec); ok {
							for fi := 0; fi < stt.NumFields(); fi++ {
								if stt.Field(fi).Name() == c.What[dot+1:] && fi < len(r.F) {
									st.caps[c.Name] = r.F[fi]
								}
							}
						}
					}
					continue
				}
			}
			cc := c
			prev := k
			k = func(st *State, v Val) {
				if _, done := st.caps[cc.Name]; !done && v != nil {
					cv := v
					if strings.HasPrefix(cc.What, "result[") {
						i, _ := strconv.Atoi(strings.TrimSuffix(cc.What[7:], "]"))
						if r, ok := v.(Rec); ok && i < len(r.F) {
							cv = r.F[i]
						}
					}
					st.caps[cc.Name] = cv
				}
				prev(st, v)
			}
		}
	}
	if x.ormStatic(st, fr, site, fn, args, k) {
		return
	}
	if name == "fmt.Sprintf" {
		if v, ok := x.sprintf(st, site, args); ok {
			k(st, v)
			return
		}
	}
	con := s.Spec.Contracts[name]
	wrapK := func(st *State, res []Val) {
		switch len(res) {
		case 0:
			k(st, nil)
		case 1:
			k(st, res[0])
		default:
			k(st, Rec{F: res})
		}
	}
	if con != nil && !con.Inline {
		x.applyContract(st, fr, con, name, fn.Signature, fn, args, k)
		return
	}
	inRepo := fn.Pkg != nil && (strings.HasPrefix(fn.Pkg.Pkg.Path(), "github.com/regen-network/regen-ledger") || fn.Pkg.Pkg.Path() == "unit")
	if fn.Parent() != nil || (con != nil && con.Inline) || (inRepo && x.autoInline(fn)) || trivialGetter(fn) {
		s.Inlined[name] = true
		x.runFunc(st, fn, args, bind, fr.depth+1, con, false, wrapK)
		return
	}
	if genericPure(fn) {
		// library function of a side-effect-free package over scalars and strings: an uninterpreted function of
		// its arguments (listed in the trusted base of the run)
		gc := &Contract{Func: name, File: "builtin:generic-pure", Assumed: true, Pure: true, Lets: map[string]*Sx{}, Loops: map[int]*LoopSpec{}}
		s.Assumed["generic pure library function "+name+" (uninterpreted function of its scalar/string arguments)"] = true
		x.applyContract(st, fr, gc, name, fn.Signature, fn, args, k)
		return
	}
	subsetf("no contract for %s", name)
}

// trivialGetter: generated protobuf accessor `func (x *T) GetF() U { if x != nil { return x.F }; return zero }`
// of any package: at most three blocks, no calls. Executed in place.
func trivialGetter(fn *ssa.Function) bool {
	if fn.Signature.Recv() == nil || !strings.HasPrefix(fn.Name(), "Get") || len(fn.Blocks) == 0 || len(fn.Blocks) > 3 || fn.Signature.Params().Len() != 0 {
		return false
	}
	for _, b := range fn.Blocks {
		for _, ins := range b.Instrs {
			switch ins.(type) {
			case ssa.CallInstruction, *ssa.MakeMap, *ssa.MakeSlice, *ssa.Alloc, *ssa.Store, *ssa.MapUpdate:
				return false
			}
		}
	}
	return true
}

var purePkgs = map[string]bool{"strings": true, "strconv": true, "unicode": true, "unicode/utf8": true, "math": true, "math/bits": true, "path": true}

// genericPure: exported function of a side-effect-free standard package whose parameters and results are all
// of basic type (or error as a result).
func genericPure(fn *ssa.Function) bool {
	if fn.Pkg == nil || !purePkgs[fn.Pkg.Pkg.Path()] || fn.Signature.Recv() != nil || fn.Signature.Variadic() {
		return false
	}
	basic := func(t types.Type) bool {
		_, ok := t.Underlying().(*types.Basic)
		return ok
	}
	for i := 0; i < fn.Signature.Params().Len(); i++ {
		if !basic(fn.Signature.Params().At(i).Type()) {
			return false
		}
	}
	res := fn.Signature.Results()
	if res.Len() == 0 {
		return false
	}
	for i := 0; i < res.Len(); i++ {
		if t := res.At(i).Type(); !basic(t) && !isErrorType(t) {
			return false
		}
	}
	return true
}

// autoInline: small loop-free repo functions without contract are executed in place
// (reported as "inlined into caller").
func (x *Exec) autoInline(fn *ssa.Function) bool {
	if len(fn.Blocks) == 0 {
		return false
	}
	n := 0
	for _, b := range fn.Blocks {
		n += len(b.Instrs)
	}
	if n > 400 {
		return false
	}
	return len(analyzeLoops(fn)) == 0
}

// ---------------------------------------------------------------------------------------------
// Builtins
// ---------------------------------------------------------------------------------------------

func (x *Exec) builtin(st *State, fr *frame, b *ssa.Builtin, cc *ssa.CallCommon, args []Val, k func(st *State, v Val)) {
	s := x.s
	switch b.Name() {
	case "len":
		switch v := args[0].(type) {
		case Slice:
			k(st, scInt(v.Len))
		case Sc:
			k(st, scInt("(strlen "+v.T+")"))
		case Rec:
			k(st, scInt(strconv.Itoa(len(v.F))))
		default:
			subsetf("len of %T", args[0])
		}
	case "cap":
		if v, ok := args[0].(Slice); ok {
			k(st, scInt(v.Cap))
			return
		}
		subsetf("cap of %T", args[0])
	case "append":
		sl := args[0].(Slice)
		elemT := cc.Args[0].Type().Underlying().(*types.Slice).Elem()
		var add Slice
		switch a := args[1].(type) {
		case Slice:
			add = a
		case Sc: // append([]byte, string...)
			ln := "(strlen " + a.T + ")"
			arr := s.newArr(st, s.fresh("strbytes"), elemT, false)
			c := s.arrContent(st, arr)
			st.assume(fmt.Sprintf("(forall ((i Int)) (! (=> (and (<= 0 i) (< i %s)) (= (select %s i) (strbyte %s i))) :pattern ((select %s i))))", ln, c.Leaves[0], a.T, c.Leaves[0]))
			add = Slice{Arr: arr, Off: "0", Len: ln, Cap: ln}
		default:
			subsetf("append of %T", args[1])
		}
		// result: a new backing array holding old[0:len] ++ add[0:len2]  (aliasing with the old
		// backing array when capacity suffices is not modelled: appended-to slices are not
		// shared in the verified subset; a later write through the old slice would be missed)
		n := s.newArr(st, s.fresh("append"), elemT, true)
		newLen := addTerm(sl.Len, add.Len)
		if sl.Arr != nil {
			if sl.Off == "0" {
				// same content at the same indices: share the (immutable) content description
				oc := s.arrContent(st, sl.Arr)
				nc := &ArrContent{Cells: map[string]Val{}, Sym: oc.Sym, Leaves: append([]string(nil), oc.Leaves...)}
				for kx, v := range oc.Cells {
					nc.Cells[kx] = v
				}
				st.arrs[n] = nc
			} else {
				x.copyQuantified(st, n, "0", sl.Arr, sl.Off, sl.Len)
			}
		}
		if ln, err := strconv.Atoi(add.Len); err == nil && ln <= 16 {
			for i := 0; i < ln; i++ {
				v := s.arrRead(st, add.Arr, addTerm(add.Off, strconv.Itoa(i)))
				s.arrWrite(st, n, addTerm(sl.Len, strconv.Itoa(i)), v)
			}
		} else if add.Arr != nil {
			x.copyQuantified(st, n, sl.Len, add.Arr, add.Off, add.Len)
		}
		cp := s.declare(s.fresh("cap"), "Int")
		s.fact("(>= " + cp + " 0)")
		st.assume("(>= " + cp + " " + newLen + ")")
		k(st, Slice{Arr: n, Off: "0", Len: newLen, Cap: cp})
	case "copy":
		dst := args[0].(Slice)
		var srcLen string
		var src Slice
		switch a := args[1].(type) {
		case Slice:
			src, srcLen = a, a.Len
		case Sc:
			srcLen = "(strlen " + a.T + ")"
			arr := s.newArr(st, s.fresh("strbytes"), types.Typ[types.Uint8], false)
			c := s.arrContent(st, arr)
			st.assume(fmt.Sprintf("(forall ((i Int)) (! (=> (and (<= 0 i) (< i %s)) (= (select %s i) (strbyte %s i))) :pattern ((select %s i))))", srcLen, c.Leaves[0], a.T, c.Leaves[0]))
			src = Slice{Arr: arr, Off: "0", Len: srcLen, Cap: srcLen}
		}
		n := fmt.Sprintf("(ite (<= %s %s) %s %s)", dst.Len, srcLen, dst.Len, srcLen)
		if dst.Arr != nil && src.Arr != nil {
			// new content of dst: fresh array agreeing with src on the copied window and with old dst elsewhere
			oc := s.arrContent(st, dst.Arr)
			sc := s.arrContent(st, src.Arr)
			if oc.Leaves == nil || sc.Leaves == nil {
				subsetf("copy of non-scalar elements")
			}
			nc := &ArrContent{Cells: map[string]Val{}}
			for i, l := range oc.Leaves {
				sorts, _ := s.leafSorts(dst.Arr.Elem)
				fl := s.declare(s.fresh("copy"), "(Array Int "+sorts[i]+")")
				st.assume(fmt.Sprintf("(forall ((i Int)) (! (= (select %s i) (ite (and (<= %s i) (< i (+ %s %s))) (select %s (+ (- i %s) %s)) (select %s i))) :pattern ((select %s i))))",
					fl, dst.Off, dst.Off, n, sc.Leaves[i], dst.Off, src.Off, l, fl))
				nc.Leaves = append(nc.Leaves, fl)
			}
			s.noteArrWrite(st, dst.Arr)
			st.arrs[dst.Arr] = nc
		}
		k(st, scInt(n))
	case "min", "max":
		a, b2 := args[0].(Sc).T, args[1].(Sc).T
		op := "<="
		if b.Name() == "max" {
			op = ">="
		}
		k(st, scInt(fmt.Sprintf("(ite (%s %s %s) %s %s)", op, a, b2, a, b2)))
	case "ssa:wrapnilchk":
		if p, ok := args[0].(Ptr); ok {
			x.assumeOrPanic(st, fr, not(p.Nil), "nilderef")
		}
		k(st, args[0])
	case "print", "println":
		k(st, nil)
	default:
		subsetf("builtin %s", b.Name())
	}
}


// copyQuantified: dst[dOff .. dOff+n) := src[sOff .. sOff+n), other cells of dst unchanged.
func (x *Exec) copyQuantified(st *State, dst *Arr, dOff string, src *Arr, sOff, n string) {
	s := x.s
	dc := s.arrContent(st, dst)
	sc := s.arrContent(st, src)
	if dc.Leaves == nil || sc.Leaves == nil {
		// cell arrays: copy concrete cells when offsets are concrete and equal
		if dOff == "0" && sOff == "0" {
			nc := &ArrContent{Cells: map[string]Val{}, Sym: sc.Sym}
			for kx, v := range sc.Cells {
				nc.Cells[kx] = v
			}
			st.arrs[dst] = nc
			return
		}
		subsetf("copy of non-scalar slice elements at symbolic offsets")
	}
	nc := &ArrContent{Cells: map[string]Val{}}
	sorts, _ := s.leafSorts(dst.Elem)
	for i, l := range dc.Leaves {
		fl := s.declare(s.fresh("copy"), "(Array Int "+sorts[i]+")")
		st.assume(fmt.Sprintf("(forall ((i Int)) (! (= (select %s i) (ite (and (<= %s i) (< i (+ %s %s))) (select %s (+ (- i %s) %s)) (select %s i))) :pattern ((select %s i))))",
			fl, dOff, dOff, n, sc.Leaves[i], dOff, sOff, l, fl))
		nc.Leaves = append(nc.Leaves, fl)
	}
	st.arrs[dst] = nc
}

// ---------------------------------------------------------------------------------------------
// Contracts at call sites
// ---------------------------------------------------------------------------------------------

func paramNames(sig *types.Signature, fn *ssa.Function, hasRecvArg bool) []string {
	var names []string
	if fn != nil {
		for i, p := range fn.Params {
			n := p.Name()
			if n == "" || n == "_" {
				n = fmt.Sprintf("arg%d", i)
			}
			names = append(names, n)
		}
		return names
	}
	if hasRecvArg {
		names = append(names, "recv")
	}
	for i := 0; i < sig.Params().Len(); i++ {
		n := sig.Params().At(i).Name()
		if n == "" || n == "_" {
			n = fmt.Sprintf("arg%d", i)
		}
		names = append(names, n)
	}
	return names
}

func paramTypes(sig *types.Signature, fn *ssa.Function, hasRecvArg bool, recvT types.Type) []types.Type {
	var ts []types.Type
	if fn != nil {
		for _, p := range fn.Params {
			ts = append(ts, p.Type())
		}
		return ts
	}
	if hasRecvArg {
		ts = append(ts, recvT)
	}
	for i := 0; i < sig.Params().Len(); i++ {
		ts = append(ts, sig.Params().At(i).Type())
	}
	return ts
}

func (x *Exec) applyContract(st *State, fr *frame, con *Contract, name string, sig *types.Signature, fn *ssa.Function, args []Val, k func(st *State, v Val)) {
	s := x.s
	if con.Assumed {
		s.Assumed["contract:"+name] = true
	}
	hasRecv := fn == nil && len(args) == sig.Params().Len()+1
	names := paramNames(sig, fn, hasRecv)
	ptypes := paramTypes(sig, fn, hasRecv, nil)
	env := &Env{s: s, vars: map[string]Val{}, typs: map[string]types.Type{}, bound: map[string]bool{}, lets: con.Lets, where: "call of " + name}
	for i, n := range names {
		if i < len(args) {
			env.vars[n] = args[i]
			if i < len(ptypes) {
				env.typs[n] = ptypes[i]
			}
		}
	}
	// ghost parameters of the callee are instantiated by same-named ghosts of the caller; the others
	// stay universally quantified: the callee's contract holds for every value of them, which the
	// caller may use as the hypothesis  forall g. requires(g) => ensures(g)
	var unprov []GhostParam
	for _, g := range con.Ghosts {
		if v, ok := x.args[g.Name]; ok {
			env.vars[g.Name] = v
		} else {
			unprov = append(unprov, g)
			env.bound[g.Name] = true
		}
	}
	mentions := func(term string) bool {
		for _, g := range unprov {
			if containsToken(term, g.Name) {
				return true
			}
		}
		return false
	}
	// captured values of the callee are some (unknown) byte slices for the caller
	for _, cp := range con.Captures {
		if cp.Kind == "scalar" {
			env.vars[cp.Name] = Sc{s.declare(s.fresh("callee.capture:"+cp.Name), "Int"), "Int"}
		} else if cp.Kind == "err" {
			env.vars[cp.Name] = s.symVal(s.fresh("callee.capture:"+cp.Name), errorType)
		} else {
			env.vars[cp.Name] = s.symVal(s.fresh("callee.capture:"+cp.Name), types.NewSlice(types.Typ[types.Uint8]))
		}
	}
	// ghost variables of the callee: their final values are some (unknown) values for the caller
	for _, gv := range con.GhostVars {
		env.vars[gv.Name] = Sc{s.declare(s.fresh("callee.ghostvar:"+gv.Name), gv.Sort), gv.Sort}
	}
	pre := st
	env.cur, env.old = st, st
	x.nPre[name]++
	var ghostReqs []string
	for _, r := range con.Requires {
		// instances of the ORM representation invariant inside a precondition are assumed facts
		env.wfTrue = true
		goal := env.term(r.Sx)
		env.wfTrue = false
		if len(unprov) > 0 && mentions(goal) {
			ghostReqs = append(ghostReqs, env.term(r.Sx))
			continue
		}
		if goal != "true" {
			x.oblig(&Obligation{Name: fmt.Sprintf("pre@%s#%d.%s", shortName(name), x.nPre[name], r.Label), Kind: "pre", Label: r.Label,
				Hyps: append([]string(nil), st.pc...), Goal: goal, Trace: strings.Join(st.trace, " "), Src: r.Src})
		}
		st.assume(env.term(r.Sx))
	}
	for _, pc := range con.Panics {
		x.assumeOrPanic(st, fr, env.term(pc.Sx), "panic@"+shortName(name)+"."+pc.Label)
	}
	pre = st.Clone()
	// the callee was verified with parameters that do not alias: an object it modifies must not be
	// passed twice
	for _, m := range con.Modifies {
		if !strings.HasPrefix(m, "*") || con.Assumed || strings.Contains(m, ".") {
			continue // assumed library contracts state their own aliasing rules (math/big allows z == x)
		}
		obj := func(v Val) (interface{}, bool) {
			for {
				iv, isI := v.(Iface)
				if !isI || iv.Dyn == nil {
					break
				}
				v = iv.V
			}
			switch pv := v.(type) {
			case Ptr:
				if pv.Loc != nil {
					return pv.Loc, true
				}
				if pv.Arr != nil {
					return pv.Arr, true
				}
			case Slice:
				if pv.Arr != nil {
					return pv.Arr, true
				}
			}
			return nil, false
		}
		mo, ok := obj(env.vars[m[1:]])
		if !ok {
			continue
		}
		for n2, v2 := range env.vars {
			if n2 == m[1:] {
				continue
			}
			if o2, ok := obj(v2); ok && o2 == mo {
				subsetf("call of %s: arguments %s and %s are the same object, which the callee modifies (contracts assume separate parameters)", name, m[1:], n2)
			}
		}
	}
	// havoc the footprint
	for _, m := range con.Modifies {
		x.havocTarget(st, env, m)
	}
	// results
	var resV Val
	res := sig.Results()
	rname := s.fresh("ret:" + shortName(name))
	if con.Pure && res.Len() >= 1 {
		resV = x.pureResult(st, name, sig, args, rname)
	} else {
		switch res.Len() {
		case 0:
		case 1:
			resV = s.symVal(rname, res.At(0).Type())
		default:
			resV = s.symVal(rname, res)
		}
	}
	if res.Len() >= 1 {
		env.vars["result"] = resV
		if res.Len() == 1 {
			env.typs["result"] = res.At(0).Type()
		} else {
			env.typs["result"] = res
		}
		if r, ok := resV.(Rec); ok && res.Len() > 1 {
			for i := 0; i < res.Len(); i++ {
				if n := res.At(i).Name(); n != "" && n != "_" {
					env.vars[n] = r.F[i]
					env.typs[n] = res.At(i).Type()
				}
			}
		}
		last := res.At(res.Len() - 1)
		if _, clash := env.vars["err"]; isErrorType(last.Type()) && !clash {
			if res.Len() == 1 {
				env.vars["err"] = resV
			} else {
				env.vars["err"] = resV.(Rec).F[res.Len()-1]
			}
			env.typs["err"] = last.Type()
		}
	}
	env.cur, env.old = st, pre
	var plain, quant []string
	for _, e := range con.Ensures {
		t := env.term(e.Sx)
		if len(unprov) > 0 && mentions(t) {
			quant = append(quant, t)
		} else {
			plain = append(plain, t)
		}
	}
	for _, t := range plain {
		st.assume(t)
	}
	if len(quant) > 0 {
		var bs []string
		for _, g := range unprov {
			bs = append(bs, fmt.Sprintf("(%s %s)", g.Name, g.Sort))
		}
		// the requires are evaluated in the pre-call state
		st.assume(fmt.Sprintf("(forall (%s) %s)", strings.Join(bs, " "), implies(and(ghostReqs...), and(quant...))))
	}
	k(st, resV)
}

// closedWorld: "" when the receiver type of impl is the only named type declared in the loaded
// repository packages that implements the interface type it; otherwise the reason.
func (s *Session) closedWorld(it types.Type, impl *ssa.Function) string {
	iface, ok := it.Underlying().(*types.Interface)
	if !ok {
		return "not an interface type"
	}
	want := impl.Signature.Recv().Type()
	found := false
	for _, pk := range s.Prog.Prog.AllPackages() {
		path := pk.Pkg.Path()
		if !strings.HasPrefix(path, "github.com/regen-network/regen-ledger") && path != "unit" {
			continue
		}
		if strings.Contains(path, "/mocks") || strings.HasSuffix(path, "/testutil") {
			continue
		}
		sc := pk.Pkg.Scope()
		for _, n := range sc.Names() {
			tn, ok := sc.Lookup(n).(*types.TypeName)
			if !ok || tn.IsAlias() {
				continue
			}
			t := tn.Type()
			if _, isI := t.Underlying().(*types.Interface); isI {
				continue
			}
			for _, cand := range []types.Type{t, types.NewPointer(t)} {
				if types.Implements(cand, iface) {
					if types.Identical(cand, want) {
						found = true
					} else if _, isPtr := cand.(*types.Pointer); isPtr && types.Implements(t, iface) {
						// the pointer type of an implementing value type: same implementation
					} else {
						return "a second implementation exists: " + cand.String()
					}
				}
			}
		}
	}
	if !found {
		return "the named implementation does not implement the interface"
	}
	return ""
}

func shortName(n string) string {
	// strip package paths: keep the last path element
	out := n
	for {
		i := strings.Index(out, "/")
		if i < 0 {
			break
		}
		// find start of this path (after '(' or '*' or start)
		j := i
		for j > 0 && out[j-1] != '(' && out[j-1] != '*' && out[j-1] != ' ' {
			j--
		}
		k := strings.LastIndex(out[:strings.IndexAny(out[i:]+" ", ") ")+i], "/")
		out = out[:j] + out[k+1:]
	}
	return out
}

func (x *Exec) pureResult(st *State, name string, sig *types.Signature, args []Val, rname string) Val {
	s := x.s
	res := sig.Results()
	var argTerms, argSorts []string
	okAll := true
	for _, a := range args {
		switch v := a.(type) {
		case Sc:
			argTerms = append(argTerms, v.T)
			argSorts = append(argSorts, v.Sort)
		case Slice:
			if v.Arr != nil && len(s.arrContent(st, v.Arr).Leaves) == 1 && isByteElem(v.Arr.Elem) {
				argTerms = append(argTerms, s.bcode(st, v))
				argSorts = append(argSorts, "Int")
			} else {
				okAll = false
			}
		case Rec:
			var ls []string
			func() {
				defer func() {
					if r := recover(); r != nil {
						okAll = false
					}
				}()
				s.flatten(v, &ls)
			}()
			for _, l := range ls {
				argTerms = append(argTerms, l)
				argSorts = append(argSorts, "?")
			}
			okAll = false // sorts unknown; keep simple
		default:
			okAll = false
		}
	}
	if !okAll || res.Len() != 1 {
		if res.Len() == 1 {
			return s.symVal(rname, res.At(0).Type())
		}
		return s.symVal(rname, res)
	}
	sorts, ok := s.leafSorts(res.At(0).Type())
	if !ok || len(sorts) != 1 {
		return s.symVal(rname, res.At(0).Type())
	}
	uf := q("uf:" + name)
	if _, done := s.declared[uf]; !done {
		s.declared[uf] = "fun"
		s.decls = append(s.decls, fmt.Sprintf("(declare-fun %s (%s) %s)", uf, strings.Join(argSorts, " "), sorts[0]))
	}
	t := uf
	if len(argTerms) > 0 {
		t = "(" + uf + " " + strings.Join(argTerms, " ") + ")"
	}
	v := Sc{t, sorts[0]}
	// typing fact for integer results
	if b, ok := res.At(0).Type().Underlying().(*types.Basic); ok && b.Info()&types.IsInteger != 0 {
		if lo, hi, ok := intRange(b); ok {
			st.assume(fmt.Sprintf("(and (<= %s %s) (<= %s %s))", lo, t, t, hi))
		}
	}
	return v
}

func isByteElem(t types.Type) bool {
	b, ok := t.Underlying().(*types.Basic)
	return ok && b.Kind() == types.Uint8
}

// havocTarget: a `modifies` entry is a table name, a component name, `bank`, or `*param`.
func (x *Exec) havocTarget(st *State, env *Env, m string) {
	s := x.s
	if strings.HasPrefix(m, "elems:") {
		// the content of the backing array of the slice at the path may be overwritten in place
		v := env.pathVal(m[6:])
		sl, ok := v.(Slice)
		if !ok {
			panic(fmt.Errorf("%s: modifies %s: not a slice", env.where, m))
		}
		if sl.Arr == nil {
			return
		}
		c := s.arrContent(st, sl.Arr)
		nc := &ArrContent{Cells: map[string]Val{}, Sym: true}
		if c.Leaves != nil {
			sorts, _ := s.leafSorts(sl.Arr.Elem)
			for i, so := range sorts {
				nc.Leaves = append(nc.Leaves, s.declare(s.fresh(fmt.Sprintf("inplace:%s#%d", sl.Arr.Name, i)), "(Array Int "+so+")"))
			}
		}
		s.noteArrWrite(st, sl.Arr)
		st.arrs[sl.Arr] = nc
		return
	}
	if strings.HasPrefix(m, "*") {
		v, ok := env.vars[m[1:]]
		if !ok && strings.Contains(m, ".") {
			v, ok = env.pathVal(m[1:]), true
		}
		if !ok {
			panic(fmt.Errorf("%s: modifies %s: unknown parameter", env.where, m))
		}
		for {
			iv, isI := v.(Iface)
			if !isI || iv.Dyn == nil {
				break
			}
			v = iv.V
		}
		if sl, isSl := v.(Slice); isSl {
			// a slice: its elements and everything behind them
			if sl.Arr == nil {
				return
			}
			s.noteArrWrite(st, sl.Arr)
			c := s.arrContent(st, sl.Arr)
			nc := &ArrContent{Cells: map[string]Val{}, Sym: true}
			if c.Leaves != nil {
				sorts, _ := s.leafSorts(sl.Arr.Elem)
				for i, so := range sorts {
					nc.Leaves = append(nc.Leaves, s.declare(s.fresh(fmt.Sprintf("inplace:%s#%d", sl.Arr.Name, i)), "(Array Int "+so+")"))
				}
			} else {
				sl.Arr.Name = s.fresh("havoc:" + sl.Arr.Name)
			}
			st.arrs[sl.Arr] = nc
			return
		}
		p, ok := v.(Ptr)
		if !ok {
			panic(fmt.Errorf("%s: modifies %s: not a pointer", env.where, m))
		}
		if p.Loc == nil {
			return
		}
		var t types.Type = p.Loc.Typ
		for _, i := range p.Path {
			t = t.Underlying().(*types.Struct).Field(i).Type()
		}
		s.store(st, p, s.symVal(s.fresh("havoc:"+p.Loc.Name), t))
		return
	}
	if _, ok := s.Spec.Tables[m]; ok {
		for _, cn := range s.Spec.compsOfTable(m) {
			s.havocComp(st, cn)
		}
		return
	}
	if _, ok := s.Spec.Comps[m]; ok {
		s.havocComp(st, m)
		return
	}
	panic(fmt.Errorf("%s: modifies %s: unknown table or component", env.where, m))
}

// expandModifies: the set of component names a modifies list covers.
func (sp *Spec) expandModifies(ms []string) map[string]bool {
	out := map[string]bool{}
	for _, m := range ms {
		if strings.HasPrefix(m, "*") || strings.HasPrefix(m, "elems:") {
			continue
		}
		if _, ok := sp.Tables[m]; ok {
			for _, cn := range sp.compsOfTable(m) {
				out[cn] = true
			}
		} else {
			out[m] = true
		}
	}
	return out
}

// sprintf: fmt.Sprintf with a literal format that consists of literal text and %s verbs applied
// to string arguments is exactly the concatenation; other uses stay opaque (contract `pure`).
func (x *Exec) sprintf(st *State, site ssa.Instruction, args []Val) (Val, bool) {
	s := x.s
	call, ok := site.(*ssa.Call)
	if !ok || len(call.Call.Args) < 1 {
		return nil, false
	}
	fc, ok := call.Call.Args[0].(*ssa.Const)
	if !ok || fc.Value == nil {
		return nil, false
	}
	format := constant.StringVal(fc.Value)
	var elems []Val
	if len(args) > 1 {
		sl, ok := args[1].(Slice)
		if !ok {
			return nil, false
		}
		n, err := strconv.Atoi(sl.Len)
		if err != nil {
			return nil, false
		}
		for i := 0; i < n; i++ {
			elems = append(elems, s.arrRead(st, sl.Arr, addTerm(sl.Off, strconv.Itoa(i))))
		}
	}
	var parts []string
	ai := 0
	lit := ""
	for i := 0; i < len(format); i++ {
		if format[i] != '%' {
			lit += string(format[i])
			continue
		}
		if i+1 >= len(format) || format[i+1] != 's' || ai >= len(elems) {
			return nil, false
		}
		iv, ok := elems[ai].(Iface)
		if !ok || iv.Dyn == nil {
			return nil, false
		}
		b, okb := iv.Dyn.Underlying().(*types.Basic)
		sc, oks := iv.V.(Sc)
		if !okb || b.Info()&types.IsString == 0 || !oks {
			return nil, false
		}
		if lit != "" {
			parts = append(parts, s.strCode(lit))
			lit = ""
		}
		parts = append(parts, sc.T)
		ai++
		i++
	}
	if ai != len(elems) {
		return nil, false
	}
	if lit != "" {
		parts = append(parts, s.strCode(lit))
	}
	if len(parts) == 0 {
		return scInt(s.strCode("")), true
	}
	t := parts[len(parts)-1]
	for i := len(parts) - 2; i >= 0; i-- {
		t = "(strcat " + parts[i] + " " + t + ")"
	}
	return scInt(t), true
}

func containsToken(term, name string) bool {
	for i := 0; i+len(name) <= len(term); i++ {
		if term[i:i+len(name)] != name {
			continue
		}
		before := i == 0 || strings.ContainsRune(" ()", rune(term[i-1]))
		after := i+len(name) == len(term) || strings.ContainsRune(" ()", rune(term[i+len(name)]))
		if before && after {
			return true
		}
	}
	return false
}
