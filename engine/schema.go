package main

import (
	"fmt"
	"go/types"
	"reflect"
	"sort"
	"strings"
)

// The ORM table schema is derived on every run from the generated Go API of the tables
// (interfaces XTable in the api module, loaded from /repo's working tree): primary key = the
// parameters of Get, unique indexes = the GetByY methods, auto-increment = InsertReturningID,
// singleton = Get(ctx) without key. Row fields come from the struct and its protobuf tags.

type TField struct {
	Proto string // proto field name (snake case)
	Go    string // Go field name
	Idx   int    // struct field index
	Type  types.Type
	Kind  string    // "int", "string", "bytes", "bool", "msg", "oneof"
	Sub   []*TField // for Kind msg
	SubT  types.Type
}

type UniqueIdx struct {
	Name   string // e.g. "Denom", "ClassKeyId"
	Fields []*TField
}

type Table struct {
	Name      string
	Row       *types.Named
	Iface     *types.Named
	PK        []*TField
	Fields    []*TField
	AutoInc   bool
	Singleton bool
	Unique    []*UniqueIdx
	Leaves    []*Leaf // non-pk leaves, in a fixed order
}

// Leaf is one SMT array component of a table.
type Leaf struct {
	Comp string // component name "T.Field" or "T.Field.Sub"
	Path []*TField
	Sort string
	Set  bool // the ".set" presence leaf of a nested message
	Opaque bool // content not modelled (one unconstrained code)
}

type Comp struct {
	Name    string
	KeySort []string // sorts of key components
	ValSort string
	Table   string // owning table ("" for free ghosts)
	Ghost   bool
}

func keySortOf(n int) string {
	switch n {
	case 0, 1:
		return "Int"
	default:
		return fmt.Sprintf("K%d", n)
	}
}

func (c *Comp) Sort() string {
	return fmt.Sprintf("(Array %s %s)", keySortOf(len(c.KeySort)), c.ValSort)
}

func mkKey(ks []string) string {
	switch len(ks) {
	case 0:
		return "0"
	case 1:
		return ks[0]
	default:
		return fmt.Sprintf("(k%d %s)", len(ks), strings.Join(ks, " "))
	}
}

func protoName(tag string) string {
	pb := reflect.StructTag(tag).Get("protobuf")
	for _, part := range strings.Split(pb, ",") {
		if strings.HasPrefix(part, "name=") {
			return part[5:]
		}
	}
	return ""
}

func classifyField(t types.Type) string {
	switch u := t.Underlying().(type) {
	case *types.Basic:
		switch {
		case u.Info()&types.IsBoolean != 0:
			return "bool"
		case u.Info()&types.IsInteger != 0:
			return "int"
		case u.Info()&types.IsString != 0:
			return "string"
		}
	case *types.Slice:
		if isByteSlice(t) {
			return "bytes"
		}
	case *types.Pointer:
		if _, ok := u.Elem().Underlying().(*types.Struct); ok {
			return "msg"
		}
	case *types.Interface:
		return "oneof"
	}
	return ""
}

func structFields(st *types.Struct, depth int) []*TField {
	var out []*TField
	for i := 0; i < st.NumFields(); i++ {
		f := st.Field(i)
		pn := protoName(st.Tag(i))
		if pn == "" {
			continue
		}
		tf := &TField{Proto: pn, Go: f.Name(), Idx: i, Type: f.Type(), Kind: classifyField(f.Type())}
		if tf.Kind == "msg" && depth < 3 {
			el := f.Type().Underlying().(*types.Pointer).Elem()
			tf.SubT = el
			tf.Sub = structFields(el.Underlying().(*types.Struct), depth+1)
		}
		out = append(out, tf)
	}
	return out
}

func findField(fs []*TField, proto string) *TField {
	for _, f := range fs {
		if f.Proto == proto {
			return f
		}
	}
	return nil
}

// DeriveTables scans a package scope for XTable interfaces.
func DeriveTables(pkg *types.Package) []*Table {
	var out []*Table
	names := pkg.Scope().Names()
	sort.Strings(names)
	for _, n := range names {
		if !strings.HasSuffix(n, "Table") {
			continue
		}
		tn, ok := pkg.Scope().Lookup(n).(*types.TypeName)
		if !ok {
			continue
		}
		named, ok := tn.Type().(*types.Named)
		if !ok {
			continue
		}
		it, ok := named.Underlying().(*types.Interface)
		if !ok {
			continue
		}
		var get, save, insRet *types.Func
		for i := 0; i < it.NumMethods(); i++ {
			m := it.Method(i)
			switch m.Name() {
			case "Get":
				get = m
			case "Save":
				save = m
			case "InsertReturningID":
				insRet = m
			}
		}
		if get == nil || save == nil {
			continue
		}
		rowPtr := save.Type().(*types.Signature).Params().At(1).Type()
		row := rowPtr.Underlying().(*types.Pointer).Elem().(*types.Named)
		t := &Table{Name: strings.TrimSuffix(n, "Table"), Row: row, Iface: named, AutoInc: insRet != nil}
		t.Fields = structFields(row.Underlying().(*types.Struct), 0)
		gsig := get.Type().(*types.Signature)
		if gsig.Params().Len() == 1 {
			t.Singleton = true
		}
		for i := 1; i < gsig.Params().Len(); i++ {
			f := findField(t.Fields, gsig.Params().At(i).Name())
			if f == nil {
				panic(fmt.Sprintf("table %s: primary key field %s not found", t.Name, gsig.Params().At(i).Name()))
			}
			t.PK = append(t.PK, f)
		}
		for i := 0; i < it.NumMethods(); i++ {
			m := it.Method(i)
			if strings.HasPrefix(m.Name(), "GetBy") {
				u := &UniqueIdx{Name: strings.TrimPrefix(m.Name(), "GetBy")}
				sig := m.Type().(*types.Signature)
				for j := 1; j < sig.Params().Len(); j++ {
					f := findField(t.Fields, sig.Params().At(j).Name())
					if f == nil {
						panic(fmt.Sprintf("table %s: unique index field %s not found", t.Name, sig.Params().At(j).Name()))
					}
					u.Fields = append(u.Fields, f)
				}
				t.Unique = append(t.Unique, u)
			}
		}
		isPK := func(f *TField) bool {
			for _, p := range t.PK {
				if p == f {
					return true
				}
			}
			return false
		}
		var top []*TField
		for _, f := range t.Fields {
			if !isPK(f) {
				top = append(top, f)
			}
		}
		t.Leaves = leavesOf(t.Name, top, nil)
		out = append(out, t)
	}
	return out
}

// Components of a table: has, leaves, per unique index a reverse map, the auto-increment sequence.
func (t *Table) Comps() []*Comp {
	ks := make([]string, len(t.PK))
	for i := range ks {
		ks[i] = "Int"
	}
	var out []*Comp
	out = append(out, &Comp{Name: t.Name + ".has", KeySort: ks, ValSort: "Bool", Table: t.Name})
	for _, l := range t.Leaves {
		out = append(out, &Comp{Name: l.Comp, KeySort: ks, ValSort: l.Sort, Table: t.Name})
	}
	for _, u := range t.Unique {
		uks := make([]string, len(u.Fields))
		for i := range uks {
			uks[i] = "Int"
		}
		out = append(out, &Comp{Name: t.Name + ".by" + u.Name + ".has", KeySort: uks, ValSort: "Bool", Table: t.Name})
		out = append(out, &Comp{Name: t.Name + ".by" + u.Name + ".key", KeySort: uks, ValSort: keySortOf(len(t.PK)), Table: t.Name})
	}
	if t.AutoInc {
		out = append(out, &Comp{Name: t.Name + ".seq", KeySort: nil, ValSort: "Int", Table: t.Name})
	}
	return out
}

func isScalarKind(k string) bool { return k == "int" || k == "string" || k == "bytes" || k == "bool" }

// leavesOf flattens (nested) message fields into array components.
func leavesOf(prefix string, fields []*TField, path []*TField) []*Leaf {
	var out []*Leaf
	for _, f := range fields {
		p := append(append([]*TField(nil), path...), f)
		switch {
		case f.Kind == "bool":
			out = append(out, &Leaf{Comp: prefix + "." + f.Go, Path: p, Sort: "Bool"})
		case isScalarKind(f.Kind):
			out = append(out, &Leaf{Comp: prefix + "." + f.Go, Path: p, Sort: "Int"})
		case f.Kind == "msg" && f.Sub != nil:
			out = append(out, &Leaf{Comp: prefix + "." + f.Go + ".set", Path: p, Sort: "Bool", Set: true})
			out = append(out, leavesOf(prefix+"."+f.Go, f.Sub, p)...)
		default:
			// oneof / repeated / deeper nesting: one opaque Int code per row
			out = append(out, &Leaf{Comp: prefix + "." + f.Go, Path: p, Sort: "Int", Opaque: true})
		}
	}
	return out
}
