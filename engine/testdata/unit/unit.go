// Package unit is the unit corpus of the verifier: tiny functions with known verdicts.
package unit

import "errors"

var ErrNeg = errors.New("negative")

// Abs: straight-line code with a branch.
func Abs(x int) int {
	if x < 0 {
		return -x
	}
	return x
}

// AbsWrong forgets the negation.
func AbsWrong(x int) int {
	if x < 0 {
		return x
	}
	return x
}

// SumTo: loop with an invariant.
func SumTo(n int) int {
	s := 0
	for i := 0; i < n; i++ {
		s += i
	}
	return s
}

// Shadow: the inner `total` shadows the outer one, which is never updated.
func Shadow(xs []int) int {
	total := 0
	for _, x := range xs {
		total, ok := total+x, true
		_ = ok
		_ = total
	}
	return total
}

// NoShadow is the correct version of Shadow.
func NoShadow(xs []int) int {
	total := 0
	for _, x := range xs {
		total = total + x
	}
	return total
}

// Continue: an iteration left early must still re-establish the invariant.
func CountPos(xs []int) int {
	n := 0
	for _, x := range xs {
		if x <= 0 {
			continue
		}
		n++
	}
	return n
}

// Trunc: narrowing conversion is exact modulo 256.
func Trunc(x uint32) byte { return byte(x) }

type pair struct{ a, b int }

// CopyStruct: struct values are copied, not shared.
func CopyStruct(p pair) int {
	q := p
	q.a = 7
	return p.a
}

// AliasSlice: two slices of one array share elements.
func AliasSlice() int {
	a := make([]int, 3)
	b := a[1:]
	b[0] = 5
	return a[1]
}

// Ptr: writes through a pointer are visible through its alias.
func Ptr() int {
	x := 1
	p := &x
	q := p
	*q = 9
	return x
}

// Div: error result and sentinel.
func Div(a, b int) (int, error) {
	if b < 0 {
		return 0, ErrNeg
	}
	if b == 0 {
		return 0, errors.New("zero")
	}
	return a / b, nil
}

// MapDedup: a map used for duplicate detection.
func MapDedup(xs []string) bool {
	seen := map[string]bool{}
	for _, x := range xs {
		if seen[x] {
			return true
		}
		seen[x] = true
	}
	return false
}

// Closure: a closure created and called in place.
func Closure(x int) int {
	add := func(y int) int { return x + y }
	return add(2)
}

// Switch statement.
func Sign(x int) int {
	switch {
	case x < 0:
		return -1
	case x == 0:
		return 0
	}
	return 1
}

// Index out of range is a panic the engine must see.
func First(xs []int) int { return xs[0] }

// NilDeref is a panic the engine must see.
func Deref(p *pair) int { return p.a }

// StrLoop ranges over a string.
func AllLower(s string) bool {
	for _, c := range s {
		if c < 'a' || c > 'z' {
			return false
		}
	}
	return true
}

// Defer runs before return.
func Defer() (r int) {
	defer func() { r = r + 1 }()
	return 1
}

// MapStraight: straight-line map writes and reads.
func MapStraight() int {
	m := map[string]int{}
	m["a"] = 1
	m["b"] = 2
	return m["a"]
}

// AddWrap: machine arithmetic wraps.
func AddWrap(a, b uint8) uint8 { return a + b }

// ShadowFor: shadowing inside a loop whose header is its body.
func ShadowFor(n int) int {
	total := 0
	i := 0
	for {
		if i >= n {
			break
		}
		total := total + i
		_ = total
		i++
	}
	return total
}

// App: append grows the slice by one.
func App(xs []int) int {
	ys := append(xs, 1)
	return len(ys)
}

// StrEq: string equality.
func StrEq(a, b string) bool { return a == b }

// Opaque has a weak contract; its body says more than its contract.
func Opaque() int { return 5 }

// UsesOpaque may rely on the contract of Opaque only.
func UsesOpaque() int { return Opaque() }

// UsesOpaqueWeak claims what the contract of Opaque gives.
func UsesOpaqueWeak() int { return Opaque() }

// NeedsPos has a precondition.
func NeedsPos(x int) int { return x - 1 }

// CallsNeedsPos violates it.
func CallsNeedsPos() int { return NeedsPos(0) }

// CallsNeedsPosOK respects it.
func CallsNeedsPosOK() int { return NeedsPos(3) }

// Quo: division by zero is a panic.
func Quo(a, b int) int { return a / b }

// Assert: a failed type assertion is a panic.
func Assert(v interface{}) int { return v.(int) }

// Find: early return out of a loop.
func Find(xs []int, y int) int {
	for i, x := range xs {
		if x == y {
			return i
		}
	}
	return -1
}

// Nested loops.
func Grid(n, m int) int {
	c := 0
	for i := 0; i < n; i++ {
		for j := 0; j < m; j++ {
			c++
		}
	}
	return c
}

// FieldWrite: a write through a pointer parameter.
func FieldWrite(p *pair) int {
	p.a = 3
	return p.a + p.b
}

// Swap: multiple results.
func Swap(a, b int) (x, y int) { return b, a }

// LoopNoInv: a loop without an invariant forgets everything it writes.
func LoopNoInv(n int) int {
	s := 0
	for i := 0; i < n; i++ {
		s = 1
	}
	return s
}

// QuoNeg: Go division truncates toward zero.
func QuoNeg(a int) int { return a / 2 }

// RemNeg: the remainder has the sign of the dividend.
func RemNeg(a int) int { return a % 3 }

// AllocLoop: an address-taken local written in a loop is forgotten at the cut.
func AllocLoop(n int) int {
	s := 0
	p := &s
	for i := 0; i < n; i++ {
		*p = *p + 1
	}
	return s
}

// FillMade: elements of a made slice written in a loop are forgotten at the cut.
func FillMade() int {
	a := make([]int, 2)
	for i := range a {
		a[i] = 7
	}
	return a[0]
}

func setTo(p *pair) { p.a = 9 }

// CallsSetInlined: a small callee is inlined, its write is seen.
func CallsSetInlined() int {
	q := pair{1, 2}
	setTo(&q)
	return q.a
}

// setWeak has a contract that says nothing: the caller must not assume the pointee is unchanged.
func setWeak(p *pair) { p.a = 9 }

func CallsSetWeak() int {
	q := pair{1, 2}
	setWeak(&q)
	return q.a
}

// CopyPtr: a struct loaded through a pointer is a copy.
func CopyPtr(p *pair) int {
	q := *p
	q.a = 7
	return p.a
}

// Alias2: pointer parameters may alias.
func Alias2(p, q *pair) int {
	p.a = 1
	q.a = 2
	return p.a
}

// SAlias: slice parameters may share their array.
func SAlias(a, b []int) int {
	if len(a) > 0 && len(b) > 0 {
		a[0] = 1
		b[0] = 2
		return a[0]
	}
	return 1
}

// ClosureCapture: a closure sees later writes of a captured variable.
func ClosureCapture() int {
	x := 1
	f := func() int { return x }
	x = 2
	return f()
}

// T32: narrowing to a signed type wraps into the negative range.
func T32(x int64) int32 { return int32(x) }

// Sub: the length of a substring.
func Sub(s string) int {
	if len(s) >= 3 {
		return len(s[1:3])
	}
	return 2
}

// USub: unsigned subtraction wraps below zero.
func USub(a, b uint64) uint64 { return a - b }

// USub32 likewise.
func USub32(a, b uint32) uint32 { return a - b }

// TwoLoops: two loops with variables of the same name.
func TwoLoops(n int) int {
	c := 0
	for i := 0; i < n; i++ {
		c++
	}
	for i := 0; i < 3; i++ {
		c++
	}
	return c
}

func inc(p *int) { *p = *p + 1 }

// LoopCallee: a callee writes a local of the caller through a pointer inside a loop.
func LoopCallee(n int) int {
	s := 0
	for i := 0; i < n; i++ {
		inc(&s)
	}
	return s
}

type box struct{ v int }

// LoopField: a field behind a pointer parameter written in a loop.
func LoopField(b *box, n int) int {
	b.v = 0
	for i := 0; i < n; i++ {
		b.v++
	}
	return b.v
}

// LoopPtrElems: objects behind the elements of a slice written in a loop.
func LoopPtrElems(bs []*box) int {
	if len(bs) == 0 || bs[0] == nil {
		return 1
	}
	bs[0].v = 0
	for _, b := range bs {
		if b != nil {
			b.v = 1
		}
	}
	return bs[0].v
}

// Labelled: break out of a nested loop.
func Labelled(n int) int {
	c := 0
outer:
	for i := 0; i < n; i++ {
		for j := 0; j < n; j++ {
			if j == 1 {
				break outer
			}
			c = 5
		}
	}
	return c
}

// StructEq: comparison of struct values.
func StructEq(p, q pair) bool { return p == q }

// Fact: recursion goes through the contract.
func Fact(n int) int {
	if n <= 0 {
		return 1
	}
	return n * Fact(n-1)
}

// CallsAlias2 passes one object twice to a callee that modifies it.
func CallsAlias2() int {
	x := pair{}
	return Alias2(&x, &x)
}

// CallsAlias2OK passes two objects.
func CallsAlias2OK() int {
	x, y := pair{}, pair{}
	return Alias2(&x, &y)
}

// setUndeclared writes through its parameter without saying so in its contract.
func setUndeclared(p *pair) { p.a = 9 }

// MustPos panics explicitly.
func MustPos(x int) int {
	if x < 0 {
		panic("negative")
	}
	return x
}

// MustPosNoPanic is MustPos under a no-panic contract.
func MustPosNoPanic(x int) int {
	if x < 0 {
		panic("negative")
	}
	return x
}

type shape interface{ area() int }
type sq struct{ s int }

func (q sq) area() int { return q.s * q.s }

// Area: a call through an interface whose dynamic type is known.
func Area(n int) int {
	var s shape = sq{n}
	return s.area()
}

// Named: named results and a bare return.
func Named(x int) (r int, err error) {
	r = x + 1
	return
}

// ArrayCopy: arrays are values.
func ArrayCopy() int {
	a := [3]int{1, 2, 3}
	b := a
	b[0] = 9
	return a[0] + b[0]
}

// Reslice: an element of a reslice is the shifted element of the slice.
func Reslice(xs []int) int {
	if len(xs) < 2 {
		return 0
	}
	return xs[1:][0] - xs[1]
}

// RoundTrip: string to bytes and back.
func RoundTrip(s string) string { return string([]byte(s)) }

// ClosureLoop: a closure called in a loop writes a captured variable.
func ClosureLoop(n int) int {
	c := 0
	add := func() { c++ }
	for i := 0; i < n; i++ {
		add()
	}
	return c
}

// FieldPtr: the address of a field passed to a callee.
func FieldPtr() int {
	p := pair{1, 2}
	inc(&p.a)
	return p.a
}

// NilGuard: a nil check protects the dereference.
func NilGuard(p *pair) int {
	if p == nil {
		return 0
	}
	return p.a
}

// Spawn: goroutines are outside the verified subset.
func Spawn() int {
	go inc(new(int))
	return 1
}

// MapLoop: a map written in a loop is forgotten at the cut.
func MapLoop(xs []string) int {
	m := map[string]int{}
	for _, x := range xs {
		m[x] = 1
	}
	return m["a"]
}

// Variadic call.
func sum(xs ...int) int {
	t := 0
	for _, x := range xs {
		t += x
	}
	return t
}

func CallsSum() int { return sum(1, 2) }

// UConv: conversion of a negative number to an unsigned type wraps.
func UConv(x int64) uint64 { return uint64(x) }

// Embedded: promoted fields.
type inner struct{ n int }
type outer struct {
	inner
	m int
}

func Embedded(o outer) int { return o.n + o.m }

// StrIndex: indexing a string past its end panics.
func StrIndex(s string) byte { return s[3] }

// SwitchFall: fallthrough.
func SwitchFall(x int) int {
	r := 0
	switch x {
	case 1:
		r += 1
		fallthrough
	case 2:
		r += 2
	default:
		r = 9
	}
	return r
}

// ShortCircuit: && does not evaluate its right operand when the left is false.
func ShortCircuit(xs []int) bool { return len(xs) > 0 && xs[0] == 1 }

// CommaOk: a checked type assertion.
func CommaOk(v interface{}) int {
	if n, ok := v.(int); ok {
		return n
	}
	return -1
}

// Bump: the new value of a field in terms of its old value.
func Bump(p *pair) { p.a = p.a + 1 }

// BumpWrong claims something about a field it does not control.
func BumpWrong(p *pair) { p.a = p.a + 1 }

type wrap struct{ in *pair }

// BumpIn writes through a pointer held in a struct parameter.
func BumpIn(w wrap) { w.in.a = 7 }

// CallsBumpIn sees the declared effect of BumpIn.
func CallsBumpIn() int {
	x := pair{1, 2}
	BumpIn(wrap{&x})
	return x.a
}

// CallsBumpInStale may not assume the old value.
func CallsBumpInStale() int {
	x := pair{1, 2}
	BumpIn(wrap{&x})
	return x.a
}

// CallsBumpKeepsB: the frame of Bump says nothing about b, so b is forgotten too (modifies *p is the whole object).
func CallsBumpKeepsB() int {
	x := pair{1, 2}
	Bump(&x)
	return x.b
}
