module unit

go 1.21
