//go:build verif

package unit

// Unit corpus of govc: every block names the verdict the engine must reach (note expect=...).
//
//@ func Abs
//@ note expect=pass
//@ ensures[abs] (and (>= result 0) (or (= result x) (= result (- x))))
//
//@ func AbsWrong
//@ note expect=fail:post.abs
//@ ensures[abs] (and (>= result 0) (or (= result x) (= result (- x))))
//
//@ func SumTo
//@ note expect=pass
//@ requires (>= n 0)
//@ loop 1 invariant[sum] (and (<= 0 i) (<= i n) (= (* 2 s) (* i (- i 1))))
//@ ensures[sum] (= (* 2 result) (* n (- n 1)))
//
//@ func Shadow
//@ note expect=fail:loop1.preserve.acc
//@ ghostvar acc Int 0
//@ loop 1 invariant[acc] (= total acc)
//@ loop 1 update acc (+ acc x)
//@ ensures[acc] (= result acc)
//
//@ func NoShadow
//@ note expect=pass
//@ ghostvar acc Int 0
//@ loop 1 invariant[acc] (= total acc)
//@ loop 1 update acc (+ acc x)
//@ ensures[acc] (= result acc)
//
//@ func CountPos
//@ note expect=pass
//@ ghostvar acc Int 0
//@ loop 1 invariant[acc] (and (= n acc) (>= n 0))
//@ loop 1 update acc (+ acc (ite (> x 0) 1 0))
//@ ensures[acc] (and (= result acc) (>= result 0))
//
//@ func Trunc
//@ note expect=pass
//@ ensures[mod] (= result (mod x 256))
//
//@ func CopyStruct
//@ note expect=pass
//@ ensures[copy] (= result p.a)
//
//@ func AliasSlice
//@ note expect=pass
//@ nopanic
//@ ensures[alias] (= result 5)
//
//@ func Ptr
//@ note expect=pass
//@ ensures[ptr] (= result 9)
//
//@ func Div
//@ note expect=pass
//@ ensures[neg]  (=> (< b 0) (and (not (ok err)) (= (err.root err) (sentinel "unit.ErrNeg"))))
//@ ensures[zero] (=> (= b 0) (not (ok err)))
//@ ensures[ok]   (=> (> b 0) (ok err))
//
//@ func MapDedup
//@ note expect=fail:post.nodup
//@ ensures[nodup] (not result)
//
//@ func Closure
//@ note expect=pass
//@ ensures[add] (= result (+ x 2))
//
//@ func Sign
//@ note expect=pass
//@ ensures[sign] (= result (ite (< x 0) (- 1) (ite (= x 0) 0 1)))
//
//@ func First
//@ note expect=fail:safe
//@ nopanic
//
//@ func Deref
//@ note expect=fail:safe
//@ nopanic
//
//@ func AllLower
//@ note expect=pass
//@ loop 1 invariant[low] (forall ((j Int)) (=> (and (<= 0 j) (< j rangepos)) (and (<= 97 (strbyte s j)) (<= (strbyte s j) 122))))
//@ ensures[low] (=> result (forall ((j Int)) (=> (and (<= 0 j) (< j (strlen s))) (and (<= 97 (strbyte s j)) (<= (strbyte s j) 122)))))
//
//@ func Defer
//@ note expect=left
//@ ensures[defer] (= r 2)
//
//@ func MapStraight
//@ note expect=pass
//@ ensures[map] (= result 1)
//
//@ func AddWrap
//@ note expect=fail:post.wrap
//@ note LISTED ASSUMPTION: machine arithmetic (+ - *) is mathematical; narrowing conversions are exact. The engine must keep saying so in every evidence file.
//@ ensures[nowrap] (= result (+ a b))
//@ ensures[wrap] (= result (mod (+ a b) 256))
//
//@ func ShadowFor
//@ note expect=fail:loop1.preserve.acc
//@ ghostvar acc Int 0
//@ loop 1 invariant[acc] (and (= total acc) (>= i 0))
//@ loop 1 update acc (+ acc 1)
//@ ensures[acc] (= result acc)
//
//@ func App
//@ note expect=pass
//@ ensures[len] (= result (+ (len xs) 1))
//
//@ func StrEq
//@ note expect=pass
//@ ensures[eq] (= result (= a b))
//
//@ func Opaque
//@ note expect=pass
//@ ensures[weak] (>= result 0)
//
//@ func UsesOpaque
//@ note expect=fail:post.exact
//@ ensures[exact] (= result 5)
//
//@ func UsesOpaqueWeak
//@ note expect=pass
//@ ensures[weak] (>= result 0)
//
//@ func NeedsPos
//@ note expect=pass
//@ requires (> x 0)
//@ ensures[dec] (>= result 0)
//
//@ func CallsNeedsPos
//@ note expect=fail:pre@unit.NeedsPos|vacuous:cover.return
//@ ensures[any] true
//
//@ func CallsNeedsPosOK
//@ note expect=pass
//@ ensures[any] (>= result 0)
//
//@ func Quo
//@ note expect=fail:safe
//@ nopanic
//
//@ func Assert
//@ note expect=left
//@ nopanic
//
//@ func Find
//@ note expect=pass
//@ nopanic
//@ ensures[range] (and (>= result (- 1)) (or (= result (- 1)) (< result (len xs))))
//
//@ func Grid
//@ note expect=pass
//@ requires (and (>= n 0) (>= m 0))
//@ loop 1 invariant[outer] (and (<= 0 i) (<= i n) (= c (* i m)))
//@ loop 2 invariant[inner] (and (<= 0 j) (<= j m) (< i n) (<= 0 i) (= c (+ (* i m) j)))
//@ ensures[grid] (= result (* n m))
//
//@ func FieldWrite
//@ note expect=pass
//@ requires (not (isnil p))
//@ modifies *p
//@ ensures[fw] (= result (+ 3 p.b))
//
//@ func Swap
//@ note expect=pass
//@ ensures[swap] (and (= x b) (= y a))
//
//@ func LoopNoInv
//@ note expect=fail:post.one
//@ ensures[one] (= result 0)
//
//@ func QuoNeg
//@ note expect=pass
//@ nopanic
//@ ensures[trunc] (and (=> (= a (- 3)) (= result (- 1))) (=> (= a 3) (= result 1)) (=> (= a (- 4)) (= result (- 2))))
//
//@ func RemNeg
//@ note expect=pass
//@ ensures[sign] (and (=> (= a (- 4)) (= result (- 1))) (=> (= a 4) (= result 1)))
//
//@ func AllocLoop
//@ note expect=fail:post.stale
//@ ensures[stale] (= result 0)
//
//@ func FillMade
//@ note expect=fail:post.stale
//@ ensures[stale] (= result 0)
//
//@ func CallsSetInlined
//@ note expect=pass
//@ ensures[seen] (= result 9)
//
//@ func setWeak
//@ note expect=pass
//@ modifies *p
//@ ensures[none] true
//
//@ func setUndeclared
//@ note expect=fail:frame.modifies
//@ note a write through a pointer parameter that the contract does not declare
//@ ensures[none] true
//
//@ func CallsSetWeak
//@ note expect=fail:post.stale
//@ ensures[stale] (= result 1)
//
//@ func CopyPtr
//@ note expect=fail:post.shared
//@ requires (not (isnil p))
//@ ensures[shared] (= result 7)
//
//@ func Alias2
//@ note expect=pass
//@ note LISTED ASSUMPTION: the parameters of a function under contract do not alias at entry; call sites that go through the contract are checked (CallsAlias2)
//@ requires (and (not (isnil p)) (not (isnil q)))
//@ modifies *p
//@ modifies *q
//@ ensures[sep] (= result 1)
//
//@ func CallsAlias2
//@ note expect=left
//@ ensures[any] true
//
//@ func CallsAlias2OK
//@ note expect=pass
//@ ensures[sep] (= result 1)
//
//@ func SAlias
//@ note expect=pass
//@ modifies *a
//@ modifies *b
//@ ensures[sep] (= result 1)
//
//@ func ClosureCapture
//@ note expect=pass
//@ ensures[late] (= result 2)
//
//@ func T32
//@ note expect=pass
//@ ensures[wrap] (and (=> (= x 2147483648) (= result (- 2147483648))) (=> (= x 5) (= result 5)) (=> (= x (- 1)) (= result (- 1))))
//
//@ func Sub
//@ note expect=pass
//@ nopanic
//@ ensures[len] (= result 2)
//
//@ func USub
//@ note expect=fail:post.math
//@ ensures[math] (= result (- a b))
//@ ensures[nonneg] (>= result 0)
//@ ensures[wrap] (=> (< a b) (= result (+ (- a b) 18446744073709551616)))
//
//@ func USub32
//@ note expect=fail:post.math
//@ ensures[math] (= result (- a b))
//@ ensures[nonneg] (>= result 0)
//
//@ func TwoLoops
//@ note expect=pass
//@ requires (>= n 0)
//@ loop 1 invariant[a] (and (<= 0 i) (<= i n) (= c i))
//@ loop 2 invariant[b] (and (<= 0 i) (<= i 3) (= c (+ n i)))
//@ ensures[sum] (= result (+ n 3))
//
//@ func LoopCallee
//@ note expect=fail:post.stale
//@ ensures[stale] (= result 0)
//
//@ func LoopField
//@ note expect=fail:post.stale
//@ requires (not (isnil b))
//@ modifies *b
//@ ensures[stale] (= result 0)
//
//@ func LoopPtrElems
//@ note expect=fail:post.stale
//@ modifies *bs
//@ ensures[stale] (or (= result 0) (= (len bs) 0) )
//
//@ func Labelled
//@ note expect=fail:post.stale
//@ ensures[stale] (= result 0)
//
//@ func StructEq
//@ note expect=pass
//@ ensures[eq] (= result (and (= p.a q.a) (= p.b q.b)))
//
//@ func Fact
//@ note expect=pass
//@ ensures[pos] (>= result 1)
//
//@ func MustPos
//@ note expect=pass
//@ ensures[pos] (>= result 0)
//
//@ func MustPosNoPanic
//@ note expect=fail:safe
//@ nopanic
//
//@ func Area
//@ note expect=pass
//@ ensures[sq] (= result (* n n))
//
//@ func Named
//@ note expect=pass
//@ ensures[named] (and (= r (+ x 1)) (ok err))
//
//@ func ArrayCopy
//@ note expect=pass
//@ ensures[val] (= result 10)
//
//@ func Reslice
//@ note expect=pass
//@ nopanic
//@ ensures[shift] (= result 0)
//
//@ func RoundTrip
//@ note expect=pass
//@ ensures[rt] (= result s)
//
//@ func ClosureLoop
//@ note expect=fail:post.stale
//@ ensures[stale] (= result 0)
//
//@ func FieldPtr
//@ note expect=pass
//@ ensures[inc] (= result 2)
//
//@ func NilGuard
//@ note expect=pass
//@ nopanic
//
//@ func Spawn
//@ note expect=left
//@ ensures[any] true
//
//@ func MapLoop
//@ note expect=fail:post.stale
//@ ensures[stale] (= result 0)
//
//@ func CallsSum
//@ note expect=left
//@ note sum has a loop and no contract: nothing is known of its result (a failure, never a proof of a wrong value)
//@ ensures[three] (= result 4)
//
//@ func UConv
//@ note expect=pass
//@ ensures[wrap] (and (>= result 0) (=> (= x (- 1)) (= result 18446744073709551615)) (=> (>= x 0) (= result x)))
//
//@ func Embedded
//@ note expect=pass
//@ ensures[emb] (= result (+ o.inner.n o.m))
//
//@ func StrIndex
//@ note expect=fail:safe
//@ nopanic
//
//@ func SwitchFall
//@ note expect=pass
//@ ensures[fall] (= result (ite (= x 1) 3 (ite (= x 2) 2 9)))
//
//@ func ShortCircuit
//@ note expect=pass
//@ nopanic
//
//@ func CommaOk
//@ note expect=left
//@ ensures[never] (= result (- 1))
//
//@ func Bump
//@ note expect=pass
//@ requires (not (isnil p))
//@ modifies *p
//@ ensures[inc] (and (= p.a (+ (old p.a) 1)) (= p.b (old p.b)))
//
//@ func BumpWrong
//@ note expect=fail:post.zero
//@ requires (not (isnil p))
//@ modifies *p
//@ ensures[zero] (= p.b 0)
//
//@ func BumpIn
//@ note expect=pass
//@ requires (not (isnil w.in))
//@ modifies *w.in
//@ ensures[set] (= w.in.a 7)
//
//@ func CallsBumpIn
//@ note expect=pass
//@ ensures[seen] (= result 7)
//
//@ func CallsBumpInStale
//@ note expect=fail:post.stale
//@ ensures[stale] (= result 1)
//
//@ func CallsBumpKeepsB
//@ note expect=pass
//@ note the contract of Bump states that b keeps its value: the caller may use it
//@ ensures[b] (= result 2)
