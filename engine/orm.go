package main

import (
	"strconv"
	"fmt"
	"go/types"
	"strings"

	"golang.org/x/tools/go/ssa"
)

// Built-in (assumed) contract of the cosmos-sdk ORM tables, generated per table from the schema
// that schema.go derives from the generated Go API. See DESIGN.md section 3.1.
//
//   Has/Get/HasByU/GetByU read the arrays (NotFound iff not present);
//   Insert fails with AlreadyExists iff present, UniqueKeyViolation iff a unique index value is taken;
//   Update fails with NotFound iff absent; Save = upsert; Delete removes (no error if absent);
//   auto-increment tables hand out seq+1; any operation may additionally fail with an
//   unspecified error without effect (unless the global `nospurious` is assumed).

const ormTrust = "builtin:cosmos-sdk/orm table contract (Get/Has/Insert/Update/Save/Delete/unique indexes/auto-increment)"

func (x *Exec) ormInvoke(st *State, fr *frame, site ssa.Instruction, ifn string, cc *ssa.CallCommon, recv Val, args []Val, k func(st *State, v Val)) bool {
	s := x.s
	if it, ok := recv.(IterV); ok {
		return x.iterInvoke(st, fr, it, cc.Method.Name(), args, k)
	}
	sig := cc.Method.Type().(*types.Signature)
	// StateStore.XTable() accessors
	if sig.Params().Len() == 0 && sig.Results().Len() == 1 {
		if t := s.Spec.TableByIf[ifaceName(sig.Results().At(0).Type())]; t != nil {
			k(st, Iface{Tok: s.declare("table:"+t.Name, "Int")})
			return true
		}
	}
	t := s.Spec.TableByIf[ifn]
	if t == nil {
		return false
	}
	s.Assumed[ormTrust] = true
	m := cc.Method.Name()
	switch {
	case m == "Get" || m == "Has":
		x.ormGet(st, t, nil, args[1:], m == "Has", k)
	case strings.HasPrefix(m, "GetBy") || strings.HasPrefix(m, "HasBy"):
		var u *UniqueIdx
		for _, ui := range t.Unique {
			if ui.Name == m[5:] {
				u = ui
			}
		}
		if u == nil {
			subsetf("unknown unique index method %s.%s", t.Name, m)
		}
		x.ormGet(st, t, u, args[1:], strings.HasPrefix(m, "Has"), k)
	case m == "Insert" || m == "Update" || m == "Save" || m == "Delete" || m == "InsertReturningID":
		x.ormWrite(st, fr, t, m, args[1], k)
	case m == "List" || m == "ListRange":
		x.ormList(st, fr, t, m, args[1:], k)
	case m == "DeleteBy" || m == "DeleteRange":
		x.ormDeleteRange(st, fr, t, m, args[1:], k)
	default:
		subsetf("ORM method %s.%s not modelled", t.Name, m)
	}
	return true
}

// scalarOf turns a key/field value into its SMT term (byte strings by content code).
func (x *Exec) scalarOf(st *State, v Val) string {
	switch a := v.(type) {
	case Sc:
		return a.T
	case Slice:
		return x.s.bcode(st, a)
	}
	subsetf("ORM key/field value of kind %T", v)
	return ""
}

func (s *Session) ioFail(st *State) string {
	io := s.declare(s.fresh("io"), "Bool")
	ns := s.declare("nospurious", "Bool")
	s.fact(fmt.Sprintf("(=> %s (not %s))", ns, io))
	return io
}

func (s *Session) freshErrID() string {
	id := s.declare(s.fresh("err"), "Int")
	s.fact("(>= " + id + " 1000000)")
	knownNonzero[id] = true
	return id
}

const (
	ormNotFound  = "github.com/cosmos/cosmos-sdk/orm/types/ormerrors.NotFound"
	ormExists    = "github.com/cosmos/cosmos-sdk/orm/types/ormerrors.AlreadyExists"
	ormUniqueVio = "github.com/cosmos/cosmos-sdk/orm/types/ormerrors.UniqueKeyViolation"
	ormBadAuto   = "github.com/cosmos/cosmos-sdk/orm/types/ormerrors.AutoIncrementKeyAlreadySet"
)

// keyComponents: terms of the primary key fields of the row stored under `key`.
func keyComponent(t *Table, key string, i int) string {
	if len(t.PK) <= 1 {
		return key
	}
	return fmt.Sprintf("(k%d.%c %s)", len(t.PK), 'a'+i, key)
}

// fieldAt: term of a top-level scalar field of the row under `key` in state st.
func (x *Exec) fieldAt(st *State, t *Table, f *TField, key string) string {
	for i, p := range t.PK {
		if p == f {
			return keyComponent(t, key, i)
		}
	}
	return fmt.Sprintf("(select %s %s)", x.s.comp(st, t.Name+"."+f.Go), key)
}

// wfInstance: instances of the table's representation invariant at `key` (assumed ORM contract):
// unique indexes are consistent with the rows, auto-increment keys lie in 1..seq, absent
// singleton rows read as zero values.
func (x *Exec) wfInstance(st *State, t *Table, key string) {
	s := x.s
	has := fmt.Sprintf("(select %s %s)", s.comp(st, t.Name+".has"), key)
	for _, u := range t.Unique {
		var uk []string
		for _, f := range u.Fields {
			uk = append(uk, x.fieldAt(st, t, f, key))
		}
		ukey := mkKey(uk)
		st.assume(implies(has, and(
			fmt.Sprintf("(select %s %s)", s.comp(st, t.Name+".by"+u.Name+".has"), ukey),
			eq(fmt.Sprintf("(select %s %s)", s.comp(st, t.Name+".by"+u.Name+".key"), ukey), key))))
	}
	if t.AutoInc {
		seq := fmt.Sprintf("(select %s 0)", s.comp(st, t.Name+".seq"))
		st.assume(fmt.Sprintf("(>= %s 0)", seq))
		st.assume(implies(has, fmt.Sprintf("(and (<= 1 %s) (<= %s %s))", key, key, seq)))
	}
}

// wfTerm: the same instance as wfInstance, as a term (for contracts: `(wf T S key)`).
func (s *Session) wfTerm(st *State, t *Table, key string) string {
	x := &Exec{s: s}
	has := fmt.Sprintf("(select %s %s)", s.comp(st, t.Name+".has"), key)
	var cs []string
	for _, u := range t.Unique {
		var uk []string
		for _, f := range u.Fields {
			uk = append(uk, x.fieldAt(st, t, f, key))
		}
		ukey := mkKey(uk)
		cs = append(cs, implies(has, and(
			fmt.Sprintf("(select %s %s)", s.comp(st, t.Name+".by"+u.Name+".has"), ukey),
			eq(fmt.Sprintf("(select %s %s)", s.comp(st, t.Name+".by"+u.Name+".key"), ukey), key))))
	}
	if t.AutoInc {
		seq := fmt.Sprintf("(select %s 0)", s.comp(st, t.Name+".seq"))
		cs = append(cs, fmt.Sprintf("(>= %s 0)", seq), implies(has, fmt.Sprintf("(and (<= 1 %s) (<= %s %s))", key, key, seq)))
	}
	return and(cs...)
}

func (x *Exec) wfUnique(st *State, t *Table, u *UniqueIdx, ukey string, uk []string) {
	s := x.s
	found := fmt.Sprintf("(select %s %s)", s.comp(st, t.Name+".by"+u.Name+".has"), ukey)
	key := fmt.Sprintf("(select %s %s)", s.comp(st, t.Name+".by"+u.Name+".key"), ukey)
	cs := []string{fmt.Sprintf("(select %s %s)", s.comp(st, t.Name+".has"), key)}
	for i, f := range u.Fields {
		cs = append(cs, eq(x.fieldAt(st, t, f, key), uk[i]))
	}
	st.assume(implies(found, and(cs...)))
}

// rowObject builds the fresh message object that Get returns for the row under key.
func (x *Exec) rowObject(st *State, t *Table, key string) *Loc {
	s := x.s
	r := x.buildMsg(st, t, t.Row, t.Fields, t.Name, key, true)
	return s.newLoc(st, s.fresh("row:"+t.Name), t.Row, r)
}

func (x *Exec) buildMsg(st *State, t *Table, typ types.Type, fields []*TField, prefix, key string, top bool) Rec {
	s := x.s
	stt := typ.Underlying().(*types.Struct)
	r := Rec{F: make([]Val, stt.NumFields())}
	for i := 0; i < stt.NumFields(); i++ {
		r.F[i] = Opaque{"unmodelled field " + stt.Field(i).Name()}
	}
	mk := func(f *TField, term string) Val {
		switch f.Kind {
		case "bytes":
			return s.bytesFromCode(st, term)
		case "bool":
			return scBool(term)
		default:
			// integers read from the store are within the range of their Go type
			if b, ok := f.Type.Underlying().(*types.Basic); ok && b.Info()&types.IsInteger != 0 {
				if lo, hi, ok := intRange(b); ok {
					st.assume(fmt.Sprintf("(and (<= %s %s) (<= %s %s))", lo, term, term, hi))
				}
			}
			return scInt(term)
		}
	}
	for _, f := range fields {
		isPK := -1
		if top {
			for i, p := range t.PK {
				if p == f {
					isPK = i
				}
			}
		}
		switch {
		case isPK >= 0:
			r.F[f.Idx] = mk(f, keyComponent(t, key, isPK))
		case f.Kind == "msg" && f.Sub != nil:
			set := fmt.Sprintf("(select %s %s)", s.comp(st, prefix+"."+f.Go+".set"), key)
			sr := x.buildMsg(st, t, f.SubT, f.Sub, prefix+"."+f.Go, key, false)
			l := s.newLoc(st, s.fresh(prefix+"."+f.Go), f.SubT, sr)
			r.F[f.Idx] = Ptr{Loc: l, Nil: not(set)}
		case isScalarKind(f.Kind):
			r.F[f.Idx] = mk(f, fmt.Sprintf("(select %s %s)", s.comp(st, prefix+"."+f.Go), key))
		default:
			r.F[f.Idx] = Opaque{"unmodelled field kind " + f.Kind + " of " + f.Go}
		}
	}
	return r
}

func (s *Session) bytesFromCode(st *State, code string) Slice {
	a := &Arr{Name: s.fresh("bytes"), Elem: types.Typ[types.Uint8]}
	c := s.arrContent(st, a)
	ln := "(blen " + code + ")"
	st.assume(eq(fmt.Sprintf("(bcode %s 0 %s)", c.Leaves[0], ln), code))
	return Slice{Arr: a, Off: "0", Len: ln, Cap: ln}
}

func (x *Exec) ormGet(st *State, t *Table, u *UniqueIdx, keyArgs []Val, hasOnly bool, k func(st *State, v Val)) {
	s := x.s
	var ks []string
	for _, a := range keyArgs {
		ks = append(ks, x.scalarOf(st, a))
	}
	var key, found string
	if u == nil {
		key = mkKey(ks)
		found = fmt.Sprintf("(select %s %s)", s.comp(st, t.Name+".has"), key)
		x.wfInstance(st, t, key)
	} else {
		ukey := mkKey(ks)
		found = fmt.Sprintf("(select %s %s)", s.comp(st, t.Name+".by"+u.Name+".has"), ukey)
		key = fmt.Sprintf("(select %s %s)", s.comp(st, t.Name+".by"+u.Name+".key"), ukey)
		x.wfUnique(st, t, u, ukey, ks)
		x.wfInstance(st, t, key)
	}
	io := s.ioFail(st)
	eid := s.freshErrID()
	if t.Singleton {
		// Get on a singleton never reports NotFound: an absent row reads as the zero message
		for _, l := range t.Leaves {
			zero := "0"
			if l.Sort == "Bool" {
				zero = "false"
			}
			st.assume(implies(not(found), eq(fmt.Sprintf("(select %s %s)", s.comp(st, l.Comp), key), zero)))
		}
		obj := x.rowObject(st, t, key)
		k(st, Rec{F: []Val{Ptr{Loc: obj, Nil: io}, Err{ite(io, eid, "0"), ite(io, eid, "0")}}})
		return
	}
	nf := s.sentinelCode(ormNotFound)
	if hasOnly {
		e := Err{ite(io, eid, "0"), ite(io, eid, "0")}
		k(st, Rec{F: []Val{scBool(and(not(io), found)), e}})
		return
	}
	code := ite(io, eid, ite(found, "0", nf))
	obj := x.rowObject(st, t, key)
	k(st, Rec{F: []Val{Ptr{Loc: obj, Nil: not(and(not(io), found))}, Err{code, code}}})
}

// rowTerms reads the message behind ptr: primary key terms and leaf terms.
func (x *Exec) rowTerms(st *State, fr *frame, t *Table, ptr Val) (pk []string, leaves map[string]string, fields map[string]string) {
	s := x.s
	p, ok := ptr.(Ptr)
	if !ok {
		subsetf("ORM row argument is %T", ptr)
	}
	x.assumeOrPanic(st, fr, not(p.Nil), "nilderef")
	if p.Loc == nil {
		st.assume("false")
		p = Ptr{Loc: &Loc{Name: s.fresh("nilrow"), Typ: t.Row, Lazy: true}, Nil: "false"}
	}
	r, ok := s.load(st, p).(Rec)
	if !ok {
		subsetf("ORM row is not a record")
	}
	leaves = map[string]string{}
	fields = map[string]string{}
	x.readMsg(st, t, r, t.Fields, t.Name, "false", leaves, fields, true)
	for _, f := range t.PK {
		pk = append(pk, fields[f.Go])
	}
	return
}

// readMsg reads the (nested) message r into leaf terms; `absent` is the condition under which the
// enclosing message pointer is nil (then leaves read as zero values).
func (x *Exec) readMsg(st *State, t *Table, r Rec, fs []*TField, prefix, absent string, leaves, fields map[string]string, top bool) {
	s := x.s
	sc := func(f *TField, v Val) string {
		switch a := v.(type) {
		case Sc:
			return a.T
		case Slice:
			return s.bcode(st, a)
		}
		return s.declare(s.fresh("opaque:"+f.Go), "Int")
	}
	for _, f := range fs {
		var v Val = Opaque{}
		if r.F != nil {
			v = r.F[f.Idx]
		}
		if f.Kind == "msg" && f.Sub != nil {
			sp, ok := v.(Ptr)
			if !ok {
				if r.F != nil {
					subsetf("row field %s is %T", f.Go, v)
				}
				sp = Ptr{Nil: "true"}
			}
			nilc := or(absent, sp.Nil)
			leaves[prefix+"."+f.Go+".set"] = not(nilc)
			var sr Rec
			if sp.Loc != nil {
				sr, _ = s.load(st, sp).(Rec)
			}
			x.readMsg(st, t, sr, f.Sub, prefix+"."+f.Go, nilc, leaves, fields, false)
			continue
		}
		zero := "0"
		if f.Kind == "bool" {
			zero = "false"
		}
		term := zero
		if r.F != nil {
			term = ite(absent, zero, sc(f, v))
		}
		if top {
			fields[f.Go] = term
			isPK := false
			for _, pkf := range t.PK {
				if pkf == f {
					isPK = true
				}
			}
			if isPK {
				continue
			}
		}
		leaves[prefix+"."+f.Go] = term
	}
}

// ghostTerm evaluates the summand of a ghost sum over a row given as field terms.
func (x *Exec) ghostTerm(st *State, g *GhostSum, fields map[string]string) (key string, term string) {
	env := &Env{s: x.s, vars: map[string]Val{}, typs: map[string]types.Type{}, bound: map[string]bool{}, cur: st, old: st, where: "ghost-sum " + g.Comp}
	for n, t := range fields {
		env.vars[n] = Sc{t, "?"}
	}
	var ks []string
	for _, kf := range g.Key {
		t, ok := fields[kf]
		if !ok {
			panic("ghost-sum " + g.Comp + ": unknown key field " + kf)
		}
		ks = append(ks, t)
	}
	return mkKey(ks), env.term(g.Term)
}

// storedFields: field terms (top-level scalars) of the row currently stored under key.
func (x *Exec) storedFields(st *State, t *Table, key string) map[string]string {
	out := map[string]string{}
	for _, f := range t.Fields {
		if f.Kind == "msg" || f.Kind == "oneof" || f.Kind == "" {
			continue
		}
		out[f.Go] = x.fieldAt(st, t, f, key)
	}
	return out
}

func (x *Exec) ormWrite(st *State, fr *frame, t *Table, op string, rowPtr Val, k func(st *State, v Val)) {
	s := x.s
	pk, leaves, fields := x.rowTerms(st, fr, t, rowPtr)
	io := s.ioFail(st)
	eid := s.freshErrID()
	var key string
	var condOK, failCode string
	hasArr := s.comp(st, t.Name+".has")
	if t.Singleton {
		key = "0"
	} else {
		key = mkKey(pk)
	}
	isInsert := "false" // whether the operation creates the row (as a term)
	if t.AutoInc && op != "Delete" {
		seq := fmt.Sprintf("(select %s 0)", s.comp(st, t.Name+".seq"))
		st.assume(fmt.Sprintf("(>= %s 0)", seq))
		zero := eq(pk[0], "0")
		newID := "(+ " + seq + " 1)"
		switch op {
		case "Insert", "InsertReturningID":
			// the key must be unset; the row is stored under seq+1
			isInsert = "true"
			key = newID
			condOK, failCode = zero, s.sentinelCode(ormBadAuto)
		case "Update":
			condOK, failCode = and(not(zero), fmt.Sprintf("(select %s %s)", hasArr, key)), s.sentinelCode(ormNotFound)
		case "Save":
			isInsert = zero
			key = ite(zero, newID, pk[0])
			condOK, failCode = or(zero, fmt.Sprintf("(select %s %s)", hasArr, pk[0])), s.sentinelCode(ormNotFound)
		}
		// keys beyond the sequence are unused (representation invariant instance)
		st.assume(not(fmt.Sprintf("(select %s %s)", hasArr, newID)))
		fields[t.PK[0].Go] = key
	}
	has := fmt.Sprintf("(select %s %s)", hasArr, key)
	x.wfInstance(st, t, key)
	if !t.AutoInc || op == "Delete" {
		switch op {
		case "Insert":
			condOK, failCode = not(has), s.sentinelCode(ormExists)
			isInsert = "true"
		case "Update":
			condOK, failCode = has, s.sentinelCode(ormNotFound)
		case "Save":
			condOK, failCode = "true", "0"
			isInsert = not(has)
		case "Delete":
			condOK, failCode = "true", "0"
		default:
			subsetf("ORM write %s on table %s", op, t.Name)
		}
	}
	// unique index violations
	uv := "false"
	type uinfo struct {
		u          *UniqueIdx
		ukey, okey string
	}
	var uis []uinfo
	if op != "Delete" {
		for _, u := range t.Unique {
			var uk, ok2 []string
			for _, f := range u.Fields {
				uk = append(uk, fields[f.Go])
				ok2 = append(ok2, x.fieldAt(st, t, f, key))
			}
			ukey := mkKey(uk)
			x.wfUnique(st, t, u, ukey, uk)
			taken := fmt.Sprintf("(select %s %s)", s.comp(st, t.Name+".by"+u.Name+".has"), ukey)
			owner := fmt.Sprintf("(select %s %s)", s.comp(st, t.Name+".by"+u.Name+".key"), ukey)
			uv = or(uv, and(taken, not(eq(owner, key))))
			uis = append(uis, uinfo{u, ukey, mkKey(ok2)})
		}
	} else {
		for _, u := range t.Unique {
			var ok2 []string
			for _, f := range u.Fields {
				ok2 = append(ok2, x.fieldAt(st, t, f, key))
			}
			uis = append(uis, uinfo{u, "", mkKey(ok2)})
		}
	}
	ok := and(not(io), condOK, not(uv))
	code := ite(io, eid, ite(condOK, s.sentinelCode(ormUniqueVio), failCode))
	// failure path
	st2 := st.Clone()
	st2.assume(not(ok))
	failRes := Val(Err{code, code})
	if op == "InsertReturningID" {
		failRes = Rec{F: []Val{scInt("0"), Err{code, code}}}
	}
	// success path
	st.assume(ok)
	st.wcount[t.Name]++
	// ghost sums: remove the old row's contribution, add the new one
	for _, g := range s.Spec.GhostSums {
		if g.Table != t.Name {
			continue
		}
		G := s.comp(st, g.Comp)
		okey, oterm := x.ghostTerm(st, g, x.storedFields(st, t, key))
		if g.Term != nil && g.Term.Atom != "" && len(g.Term.List) == 0 {
			if c, err := strconv.ParseFloat(g.Term.Atom, 64); err == nil && c > 0 {
				// counting sum (constant positive summand): a group that has a row counts at least that
				// row (lemma lsum_ge_single of spec/lean/LSum.lean: a sum of non-negative terms is at
				// least any one of them), instantiated at the row this operation touches
				st.assume(implies(has, fmt.Sprintf("(>= (select %s %s) %s)", G, okey, oterm)))
			}
		}
		G1 := ite(has, fmt.Sprintf("(store %s %s (- (select %s %s) %s))", G, okey, G, okey, oterm), G)
		if op == "Delete" {
			s.setComp(st, g.Comp, G1)
			continue
		}
		nkey, nterm := x.ghostTerm(st, g, fields)
		s.setComp(st, g.Comp, fmt.Sprintf("(store %s %s (+ (select %s %s) %s))", G1, nkey, G1, nkey, nterm))
	}
	for _, ui := range uis {
		bh, bk := t.Name+".by"+ui.u.Name+".has", t.Name+".by"+ui.u.Name+".key"
		H := s.comp(st, bh)
		H1 := ite(has, fmt.Sprintf("(store %s %s false)", H, ui.okey), H)
		if op == "Delete" {
			s.setComp(st, bh, H1)
			continue
		}
		s.setComp(st, bh, fmt.Sprintf("(store %s %s true)", H1, ui.ukey))
		s.setComp(st, bk, fmt.Sprintf("(store %s %s %s)", s.comp(st, bk), ui.ukey, key))
	}
	if op == "Delete" {
		s.setComp(st, t.Name+".has", fmt.Sprintf("(store %s %s false)", hasArr, key))
	} else {
		s.setComp(st, t.Name+".has", fmt.Sprintf("(store %s %s true)", hasArr, key))
		for _, l := range t.Leaves {
			v, okl := leaves[l.Comp]
			if !okl {
				v = s.declare(s.fresh("opaque:"+l.Comp), l.Sort)
			}
			s.setComp(st, l.Comp, fmt.Sprintf("(store %s %s %s)", s.comp(st, l.Comp), key, v))
		}
		if t.AutoInc {
			sq := t.Name + ".seq"
			cur := fmt.Sprintf("(select %s 0)", s.comp(st, sq))
			s.setComp(st, sq, fmt.Sprintf("(store %s 0 %s)", s.comp(st, sq), ite(isInsert, "(+ "+cur+" 1)", cur)))
		}
	}
	if t.AutoInc && op != "Delete" {
		// the ORM stores the assigned id into the message
		if p, ok := rowPtr.(Ptr); ok && p.Loc != nil {
			np := p
			np.Path = append(append([]int(nil), p.Path...), t.PK[0].Idx)
			s.store(st, np, scInt(key))
		}
	}
	okRes := Val(Err{"0", "0"})
	if op == "InsertReturningID" {
		okRes = Rec{F: []Val{scInt(key), Err{"0", "0"}}}
	}
	k(st, okRes)
	k(st2, failRes)
}

func (x *Exec) ormStatic(st *State, fr *frame, site ssa.Instruction, fn *ssa.Function, args []Val, k func(st *State, v Val)) bool {
	return x.iterStatic(st, fr, fn, args, k)
}
