package main

import (
	"fmt"
	"sort"
	"go/types"
	"strconv"
	"strings"
)

// Env evaluates contract expressions (s-expressions with Go paths) to SMT terms.
type Env struct {
	s     *Session
	vars  map[string]Val
	typs  map[string]types.Type
	bound map[string]bool
	lets  map[string]*Sx
	cur   *State // S' and plain Go paths
	old   *State // S and (old ...)
	where string // for error messages
	wfTrue bool  // evaluate (wf ...) instances as true (they are assumed ORM facts, not proof goals)
}

func (e *Env) errf(format string, a ...interface{}) {
	panic(fmt.Errorf("%s: %s", e.where, fmt.Sprintf(format, a...)))
}

func (e *Env) child() *Env {
	n := *e
	n.bound = map[string]bool{}
	for k := range e.bound {
		n.bound[k] = true
	}
	return &n
}

func isNumeral(s string) bool {
	if s == "" {
		return false
	}
	dot := false
	for i, c := range s {
		if c == '.' && !dot && i > 0 {
			dot = true
			continue
		}
		if c < '0' || c > '9' {
			return false
		}
	}
	return true
}

// stateOf resolves a state designator.
func (e *Env) stateOf(x *Sx) *State {
	if x.IsAtom() {
		switch x.Atom {
		case "S":
			return e.old
		case "S'":
			return e.cur
		case "Si":
			// the state at the start of the current loop iteration; the entry state outside loops
			if e.cur != nil && e.cur.iterStart != nil {
				return e.cur.iterStart
			}
			return e.old
		}
	}
	e.errf("bad state designator %s (want S, S' or Si)", x)
	return nil
}

func (e *Env) term(x *Sx) string {
	if x.IsAtom() {
		return e.atom(x.Atom)
	}
	if len(x.List) == 0 {
		e.errf("empty list")
	}
	h := x.Head()
	if h == "" {
		// ((as const ...) v) and similar: pass through with evaluated args
		var parts []string
		for _, a := range x.List {
			parts = append(parts, e.term(a))
		}
		return "(" + strings.Join(parts, " ") + ")"
	}
	if m, ok := e.s.Spec.Macros[h]; ok {
		if len(m.Params) != len(x.List)-1 {
			e.errf("macro %s expects %d arguments, got %d", h, len(m.Params), len(x.List)-1)
		}
		sub := map[string]*Sx{}
		for i, p := range m.Params {
			sub[p] = x.List[i+1]
		}
		return e.term(m.Body.Subst(sub))
	}
	if c, ok := e.s.Spec.Comps[h]; ok {
		st := e.stateOf(x.List[1])
		arr := e.s.comp(st, c.Name)
		if len(x.List)-2 != len(c.KeySort) {
			e.errf("component %s expects %d key terms, got %d", h, len(c.KeySort), len(x.List)-2)
		}
		var ks []string
		for _, k := range x.List[2:] {
			ks = append(ks, e.term(k))
		}
		return fmt.Sprintf("(select %s %s)", arr, mkKey(ks))
	}
	switch h {
	case "!":
		// (! body :pattern (t1 t2 ...) ...): evaluate the body and every pattern term
		parts := []string{"!", e.term(x.List[1])}
		for i := 2; i < len(x.List); i++ {
			a := x.List[i]
			if a.IsAtom() {
				parts = append(parts, a.Atom)
				continue
			}
			var ts []string
			for _, t := range a.List {
				ts = append(ts, e.term(t))
			}
			parts = append(parts, "("+strings.Join(ts, " ")+")")
		}
		return "(" + strings.Join(parts, " ") + ")"
	case "comp":
		c := e.s.Spec.Comps[x.List[1].Atom]
		if c == nil {
			e.errf("unknown component %s", x.List[1])
		}
		return e.s.comp(e.stateOf(x.List[2]), c.Name)
	case "old":
		n := *e
		n.cur = e.old
		return n.term(x.List[1])
	case "len":
		v := e.val(x.List[1])
		switch s := v.(type) {
		case Slice:
			return s.Len
		case Sc:
			return "(strlen " + s.T + ")"
		}
		e.errf("len of %T", v)
	case "byteat":
		// (byteat slice i): the i-th element of a byte slice (ground: a select on its content array)
		v := e.val(x.List[1])
		sl, ok := v.(Slice)
		if !ok {
			e.errf("byteat of %T", v)
		}
		if sl.Arr == nil {
			return "0"
		}
		c := e.s.arrContent(e.cur, sl.Arr)
		if len(c.Leaves) != 1 {
			e.errf("byteat of a non-scalar slice")
		}
		return fmt.Sprintf("(select %s %s)", c.Leaves[0], addTerm(sl.Off, e.term(x.List[2])))
	case "sameslice":
		// (sameslice A B): A and B are the same window of the same backing array (slice identity)
		a, oka := e.val(x.List[1]).(Slice)
		b, okb := e.val(x.List[2]).(Slice)
		if !oka || !okb {
			e.errf("sameslice of non-slices")
		}
		if a.Arr != b.Arr {
			return "false"
		}
		return and(eq(a.Off, b.Off), eq(a.Len, b.Len))
	case "nosharing":
		// (nosharing A B): no backing array reachable from value A is reachable from value B
		// (decided structurally: backing arrays have identities in the engine). Abstract values share nothing.
		a, b := e.val(x.List[1]), e.val(x.List[2])
		as, bs := map[*Arr]bool{}, map[*Arr]bool{}
		collectArrs(e.s, e.cur, a, as, 0)
		collectArrs(e.s, e.cur, b, bs, 0)
		for k := range as {
			if bs[k] {
				return "false"
			}
		}
		return "true"
	case "natval":
		// value of a natural number stored in a word slice (big.Int.abs): a function of the content window
		v := e.val(x.List[1])
		sl, ok := v.(Slice)
		if !ok {
			e.errf("natval of %T", v)
		}
		if sl.Arr == nil {
			return "0"
		}
		c := e.s.arrContent(e.cur, sl.Arr)
		if len(c.Leaves) != 1 {
			e.errf("natval of a non-scalar slice")
		}
		return ite(eq(sl.Len, "0"), "0", fmt.Sprintf("(natval %s %s %s)", c.Leaves[0], sl.Off, sl.Len))
	case "bcode":
		v := e.val(x.List[1])
		if s, ok := v.(Slice); ok {
			return e.s.bcode(e.cur, s)
		}
		e.errf("bcode of %T", v)
	case "ok":
		v := e.val(x.List[1])
		if er, ok := v.(Err); ok {
			return eq(er.ID, "0")
		}
		e.errf("ok of %T", v)
	case "err.id":
		v := e.val(x.List[1])
		if er, ok := v.(Err); ok {
			return er.ID
		}
		e.errf("err.id of %T", v)
	case "err.root":
		v := e.val(x.List[1])
		if er, ok := v.(Err); ok {
			return er.Root
		}
		e.errf("err.root of %T", v)
	case "errcode":
		// the sentinel code of the *errors.Error a package-level variable points to
		v := e.val(x.List[1])
		if p, ok := v.(Ptr); ok && p.Loc != nil && p.Loc.Sentinel != "" {
			return e.s.sentinelCode(p.Loc.Sentinel)
		}
		c := e.s.declare(e.s.fresh("errcode"), "Int")
		e.s.fact("(>= " + c + " 1000000)")
		return c
	case "sentinel":
		return e.s.sentinelCode(unquote(x.List[1].Atom))
	case "implements":
		// (implements "pkg/path.Iface" tokterm): the uninterpreted predicate the engine uses for a type
		// assertion of an opaque interface value to that interface type
		uf := q("implements:" + unquote(x.List[1].Atom))
		if _, done := e.s.declared[uf]; !done {
			e.s.declared[uf] = "fun"
			e.s.decls = append(e.s.decls, fmt.Sprintf("(declare-fun %s (Int) Bool)", uf))
		}
		return "(" + uf + " " + e.term(x.List[2]) + ")"
	case "gonil":
		// (gonil slice): the Go nil-ness of a slice value (what `s == nil` tests), as opposed to (isnil s) = empty
		v := e.val(x.List[1])
		if sl, ok := v.(Slice); ok {
			return e.s.sliceNil(sl)
		}
		e.errf("gonil of %T", v)
	case "isnil":
		v := e.val(x.List[1])
		switch p := v.(type) {
		case Ptr:
			return p.Nil
		case Slice:
			return eq(p.Len, "0")
		case Iface:
			if p.Dyn != nil {
				return "false"
			}
			return eq(p.Tok, "0")
		case Err:
			return eq(p.ID, "0")
		}
		e.errf("isnil of %T", v)
	case "tok":
		v := e.val(x.List[1])
		switch p := v.(type) {
		case Iface:
			if p.Dyn != nil {
				e.errf("tok of concrete interface value")
			}
			return p.Tok
		case Fn:
			return p.Tok
		case Sc:
			return p.T
		}
		e.errf("tok of %T", v)
	case "forall", "exists":
		n := e.child()
		for _, b := range x.List[1].List {
			n.bound[b.List[0].Atom] = true
		}
		return fmt.Sprintf("(%s %s %s)", h, x.List[1].String(), n.term(x.List[2]))
	case "let":
		n := e.child()
		var bs []string
		for _, b := range x.List[1].List {
			bs = append(bs, fmt.Sprintf("(%s %s)", b.List[0].Atom, e.term(b.List[1])))
		}
		for _, b := range x.List[1].List {
			n.bound[b.List[0].Atom] = true
		}
		return fmt.Sprintf("(let (%s) %s)", strings.Join(bs, " "), n.term(x.List[2]))
	case "forall-range":
		// (forall-range i lo hi body): expanded when lo and hi are numerals, else a quantifier
		v := x.List[1].Atom
		lo, hi := e.term(x.List[2]), e.term(x.List[3])
		l, err1 := strconv.Atoi(lo)
		hh, err2 := strconv.Atoi(hi)
		if err1 == nil && err2 == nil && hh-l <= 64 {
			var cs []string
			for i := l; i < hh; i++ {
				cs = append(cs, e.term(x.List[4].Subst(map[string]*Sx{v: A(strconv.Itoa(i))})))
			}
			return and(cs...)
		}
		n := e.child()
		n.bound[v] = true
		return fmt.Sprintf("(forall ((%s Int)) (=> (and (<= %s %s) (< %s %s)) %s))", v, lo, v, v, hi, n.term(x.List[4]))
	case "frame":
		// (frame T S S' key...) : has and field arrays of T agree outside the listed keys
		t := e.s.Spec.Tables[x.List[1].Atom]
		if t == nil {
			e.errf("frame: unknown table %s", x.List[1])
		}
		s0, s1 := e.stateOf(x.List[2]), e.stateOf(x.List[3])
		var keys []string
		for _, k := range x.List[4:] {
			keys = append(keys, e.keyTerm(k))
		}
		var cs []string
		comps := []string{t.Name + ".has"}
		for _, l := range t.Leaves {
			comps = append(comps, l.Comp)
		}
		for _, cn := range comps {
			a0, a1 := e.s.comp(s0, cn), e.s.comp(s1, cn)
			rhs := a0
			for _, k := range keys {
				rhs = fmt.Sprintf("(store %s %s (select %s %s))", rhs, k, a1, k)
			}
			cs = append(cs, eq(a1, rhs))
		}
		return and(cs...)
	case "same":
		// (same T S S') : every component owned by table T (incl. indexes, sequence, ghost sums) is unchanged;
		// (same comp S S') for a single component
		s0, s1 := e.stateOf(x.List[2]), e.stateOf(x.List[3])
		name := x.List[1].Atom
		var cs []string
		if _, ok := e.s.Spec.Tables[name]; ok {
			for _, cn := range e.s.Spec.compsOfTable(name) {
				cs = append(cs, eq(e.s.comp(s1, cn), e.s.comp(s0, cn)))
			}
		} else if c := e.s.Spec.Comps[name]; c != nil {
			cs = append(cs, eq(e.s.comp(s1, name), e.s.comp(s0, name)))
		} else {
			e.errf("same: unknown table/component %s", name)
		}
		return and(cs...)
	case "samerow":
		// (samerow T S0 S1 key... [:except Col...]) : the row of table T at the key has the same presence and the
		// same value in every column (nested timestamp parts included) in both states, except the listed
		// top-level columns. Indexes, sequences and ghost sums are not row columns.
		t := e.s.Spec.Tables[x.List[1].Atom]
		if t == nil {
			e.errf("samerow: unknown table %s", x.List[1])
		}
		s0, s1 := e.stateOf(x.List[2]), e.stateOf(x.List[3])
		var ks []string
		except := map[string]bool{}
		i := 4
		for ; i < len(x.List) && x.List[i].Atom != ":except"; i++ {
			ks = append(ks, e.term(x.List[i]))
		}
		for i++; i < len(x.List); i++ {
			except[x.List[i].Atom] = true
		}
		key := mkKey(ks)
		pfx := t.Name + "."
		have := map[string]bool{}
		for _, cn := range e.s.Spec.compsOfTable(t.Name) {
			have[cn] = true
		}
		used := map[string]bool{}
		var cs []string
		for _, cn := range e.s.Spec.compsOfTable(t.Name) {
			c := e.s.Spec.Comps[cn]
			rest := strings.TrimPrefix(cn, pfx)
			if c.Ghost || !strings.HasPrefix(cn, pfx) || strings.HasPrefix(rest, "by") || rest == "seq" {
				continue
			}
			col := rest
			if j := strings.Index(rest, "."); j >= 0 {
				col = rest[:j]
			}
			if except[col] {
				used[col] = true
				continue
			}
			a1, a0 := fmt.Sprintf("(select %s %s)", e.s.comp(s1, cn), key), fmt.Sprintf("(select %s %s)", e.s.comp(s0, cn), key)
			// a nested part only has a meaning when every enclosing optional message is set
			var guards []string
			for anc := cn; ; {
				j := strings.LastIndex(anc, ".")
				if j <= len(pfx)-1 {
					break
				}
				anc = anc[:j]
				if have[anc+".set"] && anc+".set" != cn {
					guards = append(guards, fmt.Sprintf("(select %s %s)", e.s.comp(s0, anc+".set"), key))
				}
			}
			if len(guards) > 0 {
				cs = append(cs, implies(and(guards...), eq(a1, a0)))
				continue
			}
			cs = append(cs, eq(a1, a0))
		}
		for c := range except {
			if !used[c] {
				e.errf("samerow: table %s has no column %s", t.Name, c)
			}
		}
		return and(cs...)
	case "iter.n":
		it, _ := e.iterOf(x.List[1])
		return it.N
	case "iter.consumed":
		it, is := e.iterOf(x.List[1])
		return ite(fmt.Sprintf("(< %s %s)", is.Pos, it.N), "(+ "+is.Pos+" 1)", it.N)
	case "iter.psum":
		// (iter.psum it ghostcomp gkey...) : contribution of the rows consumed so far
		it, is := e.iterOf(x.List[1])
		f, ok := it.Psum[x.List[2].Atom]
		if !ok {
			e.errf("iter.psum: %s is not a ghost sum over table %s", x.List[2], it.Table.Name)
		}
		var ks []string
		for _, k := range x.List[3:] {
			ks = append(ks, e.term(k))
		}
		consumed := ite(fmt.Sprintf("(< %s %s)", is.Pos, it.N), "(+ "+is.Pos+" 1)", it.N)
		return fmt.Sprintf("(%s %s %s)", f, mkKey(ks), consumed)
	case "wf":
		// (wf T S key...) : the instance at `key` of the representation invariant of table T that
		// the (assumed) ORM contract maintains: unique indexes agree with the rows, auto-increment
		// keys lie in 1..seq
		t := e.s.Spec.Tables[x.List[1].Atom]
		if t == nil {
			e.errf("wf: unknown table %s", x.List[1])
		}
		if e.wfTrue {
			return "true"
		}
		st := e.stateOf(x.List[2])
		var ks []string
		for _, k := range x.List[3:] {
			ks = append(ks, e.term(k))
		}
		return e.s.wfTerm(st, t, mkKey(ks))
	case "key":
		return e.keyTerm(x)
	}
	if vw, ok := e.s.Spec.Views[h]; ok && len(x.List) == 2 {
		av := e.val(x.List[1])
		if pv, isPtr := av.(Ptr); isPtr && pv.Loc != nil {
			// a pointer to an abstract (scalar) value denotes that value: no view
			if sc, ok := e.s.load(e.cur, pv).(Sc); ok {
				av = sc
				return "(" + h + " " + sc.T + ")"
			}
		}
		if _, isSc := av.(Sc); !isSc {
			n := *e
			n.vars = map[string]Val{}
			n.typs = map[string]types.Type{}
			for k, v := range e.vars {
				n.vars[k] = v
			}
			for k, v := range e.typs {
				n.typs[k] = v
			}
			n.vars[vw.Param] = av
			vt := e.s.Prog.LookupType(vw.Type)
			if vt == nil {
				e.errf("view %s: type %s not loaded", h, vw.Type)
			}
			if _, isPtr := av.(Ptr); isPtr {
				vt = types.NewPointer(vt)
			}
			n.typs[vw.Param] = vt
			return n.term(vw.Body)
		}
	}
	// generic application: evaluate arguments
	parts := []string{h}
	for _, a := range x.List[1:] {
		parts = append(parts, e.term(a))
	}
	return "(" + strings.Join(parts, " ") + ")"
}

// keyTerm: (key a b) -> composite key term; a single term otherwise.
func (e *Env) keyTerm(x *Sx) string {
	if x.Head() == "key" {
		var ks []string
		for _, k := range x.List[1:] {
			ks = append(ks, e.term(k))
		}
		return mkKey(ks)
	}
	return e.term(x)
}

// expandLetRoot: `c.F.G` where c is a let bound to a Go path p  ->  `p.F.G`
func (e *Env) expandLetRoot(a string) string {
	for n := 0; n < 8; n++ {
		i := strings.IndexAny(a, ".[")
		if i < 0 {
			return a
		}
		lx, ok := e.lets[a[:i]]
		if !ok || !lx.IsAtom() {
			return a
		}
		if _, isVar := e.vars[a[:i]]; isVar {
			return a
		}
		a = lx.Atom + a[i:]
	}
	return a
}

func (e *Env) atom(a string) string {
	if e.bound[a] {
		return a
	}
	a = e.expandLetRoot(a)
	if a == "true" || a == "false" || isNumeral(a) {
		return a
	}
	if strings.HasPrefix(a, "\"") {
		return e.s.strCode(unquote(a))
	}
	if lx, ok := e.lets[a]; ok {
		return e.term(lx)
	}
	root := a
	if i := strings.IndexAny(a, ".["); i >= 0 {
		root = a[:i]
	}
	if _, ok := e.vars[root]; ok {
		v := e.pathVal(a)
		if p, ok := v.(Ptr); ok && p.Loc != nil {
			// a pointer to a scalar denotes the scalar
			v = e.s.load(e.cur, p)
		}
		switch s := v.(type) {
		case Sc:
			return s.T
		case Rec:
			// single-leaf records unwrap
			var leaves []string
			e.s.flatten(s, &leaves)
			if len(leaves) == 1 {
				return leaves[0]
			}
		}
		e.errf("path %s does not denote a scalar (%T)", a, v)
	}
	if a == "nospurious" {
		// the global "no spurious store / IO fault" flag: declared on first use (a function without ORM calls
		// may mention it through a callee's totality clause)
		return e.s.declare("nospurious", "Bool")
	}
	// SMT symbol from the prelude or built-in
	if strings.ContainsAny(a, ".[") && !e.s.Spec.Symbols[a] && !baseSymbols[a] && !isNumeral(a) {
		if _, isComp := e.s.Spec.Comps[a]; !isComp {
			e.errf("unknown variable or symbol %s", a)
		}
	}
	return a
}

// val evaluates an expression that denotes a Go value (a path); interface values made from a
// concrete value denote that value.
func (e *Env) val(x *Sx) Val {
	v := e.val0(x)
	for {
		iv, ok := v.(Iface)
		if !ok || iv.Dyn == nil {
			return v
		}
		v = iv.V
	}
}

func (e *Env) val0(x *Sx) Val {
	if x.IsAtom() {
		if ex := e.expandLetRoot(x.Atom); ex != x.Atom {
			return e.val0(A(ex))
		}
		if lx, ok := e.lets[x.Atom]; ok {
			return e.val(lx)
		}
		root := x.Atom
		if i := strings.IndexAny(root, ".["); i >= 0 {
			root = root[:i]
		}
		if _, ok := e.vars[root]; ok {
			return e.pathVal(x.Atom)
		}
		return Sc{e.atom(x.Atom), "?"}
	}
	if x.Head() == "old" {
		n := *e
		n.cur = e.old
		return n.val(x.List[1])
	}
	return Sc{e.term(x), "?"}
}

// pathVal resolves `name(.field|[idx])*` against the current state.
func (e *Env) pathVal(p string) Val {
	i := 0
	readIdent := func() string {
		st := i
		for i < len(p) && p[i] != '.' && p[i] != '[' {
			i++
		}
		return p[st:i]
	}
	root := readIdent()
	v, ok := e.vars[root]
	if !ok {
		e.errf("unknown variable %s", root)
	}
	t := e.typs[root]
	for i < len(p) {
		if p[i] == '.' {
			i++
			fname := readIdent()
			// auto-deref pointers; interface values made from a concrete value denote that value
			for {
				if iv, ok := v.(Iface); ok && iv.Dyn != nil {
					v, t = iv.V, iv.Dyn
					continue
				}
				if pt, ok := v.(Ptr); ok {
					if t != nil {
						t = t.Underlying().(*types.Pointer).Elem()
					}
					if pt.Loc == nil {
						// dereference of a definitely-nil pointer: an undefined (arbitrary) value
						if t == nil {
							e.errf("path %s dereferences a nil pointer", p)
						}
						v = e.s.symVal(e.s.fresh("undef:"+p), t)
						continue
					}
					v = e.s.load(e.cur, pt)
					continue
				}
				break
			}
			if t == nil {
				e.errf("path %s: no type information at .%s", p, fname)
			}
			st, ok := t.Underlying().(*types.Struct)
			if !ok {
				if a := e.s.abstractOf(t); a != nil {
					e.errf("path %s: type %s is abstract here", p, a.Name)
				}
				e.errf("path %s: .%s applied to non-struct %s", p, fname, t)
			}
			if e.s.abstractOf(t) != nil {
				e.errf("path %s: field of abstract type %s", p, t)
			}
			found := false
			for k := 0; k < st.NumFields(); k++ {
				if st.Field(k).Name() == fname {
					r, ok := v.(Rec)
					if !ok {
						e.errf("path %s: value is %T, not a record", p, v)
					}
					v = r.F[k]
					t = st.Field(k).Type()
					found = true
					break
				}
			}
			if !found {
				e.errf("path %s: no field %s in %s", p, fname, t)
			}
		} else { // '['
			depth := 0
			st := i + 1
			for ; i < len(p); i++ {
				if p[i] == '[' {
					depth++
				} else if p[i] == ']' {
					depth--
					if depth == 0 {
						break
					}
				}
			}
			idxSrc := p[st:i]
			i++
			idx := e.atom(idxSrc)
			switch s := v.(type) {
			case Slice:
				if s.Arr == nil {
					// index into a nil slice: an undefined (arbitrary) value
					if t == nil {
						e.errf("path %s indexes a nil slice", p)
					}
					t = t.Underlying().(*types.Slice).Elem()
					v = e.s.symVal(e.s.fresh("undef:"+p), t)
					continue
				}
				v = e.s.arrRead(e.cur, s.Arr, addTerm(s.Off, idx))
				t = s.Arr.Elem
			case Rec:
				n, err := strconv.Atoi(idx)
				if err != nil {
					e.errf("path %s: symbolic index into fixed array", p)
				}
				v = s.F[n]
				if t != nil {
					switch u := t.Underlying().(type) {
					case *types.Array:
						t = u.Elem()
					case *types.Tuple:
						t = u.At(n).Type()
					default:
						t = nil
					}
				}
			default:
				e.errf("path %s: index into %T", p, v)
			}
		}
	}
	return v
}

func addTerm(a, b string) string {
	if a == "0" {
		return b
	}
	if b == "0" {
		return a
	}
	x, e1 := strconv.Atoi(a)
	y, e2 := strconv.Atoi(b)
	if e1 == nil && e2 == nil {
		return strconv.Itoa(x + y)
	}
	return "(+ " + a + " " + b + ")"
}

func subTerm(a, b string) string {
	if b == "0" {
		return a
	}
	x, e1 := strconv.Atoi(a)
	y, e2 := strconv.Atoi(b)
	if e1 == nil && e2 == nil {
		return num(int64(x - y))
	}
	return "(- " + a + " " + b + ")"
}

// bcode is the content code of a byte slice (an uninterpreted function of content, offset, length):
// equal contents have equal codes; used as ORM key component and for address equality.
func (s *Session) bcode(st *State, sl Slice) string {
	if sl.Arr == nil {
		return "bcode.empty"
	}
	c := s.arrContent(st, sl.Arr)
	if len(c.Leaves) != 1 {
		subsetf("bcode of a non-byte slice")
	}
	t := fmt.Sprintf("(bcode %s %s %s)", c.Leaves[0], sl.Off, sl.Len)
	// the code determines the length (it is an injective code of the byte string); stated only where the
	// contract under verification talks about blen (the extra function over arrays makes model finding for
	// cover queries slow)
	if s.BlenFacts {
		s.fact(fmt.Sprintf("(= (blen %s) %s)", t, sl.Len))
	}
	return t
}

func (s *Session) sentinelCode(name string) string {
	return fmt.Sprintf("%d", s.Spec.Strs.Code("sentinel:"+name)+1000)
}

func (sp *Spec) compsOfTable(name string) []string {
	var out []string
	for _, c := range sp.Comps {
		if c.Table == name {
			out = append(out, c.Name)
		}
	}
	sort.Strings(out)
	return out
}

func collectArrs(s *Session, st *State, v Val, out map[*Arr]bool, depth int) {
	if depth > 6 {
		return
	}
	switch a := v.(type) {
	case Slice:
		if a.Arr != nil {
			out[a.Arr] = true
		}
	case Rec:
		for _, f := range a.F {
			collectArrs(s, st, f, out, depth+1)
		}
	case ArrayV:
		out[a.Arr] = true
	case Ptr:
		if a.Arr != nil {
			out[a.Arr] = true
		}
		if a.Loc != nil {
			if c, ok := st.mem[a.Loc]; ok {
				collectArrs(s, st, c, out, depth+1)
			}
		}
	}
}
