package main

import (
	"context"
	"os/exec"
	"encoding/json"
	"flag"
	"fmt"
	"go/types"
	"os"
	"path/filepath"
	"sort"
	"strconv"
	"strings"
	"time"

	"golang.org/x/tools/go/ssa"
)

// PropConfig: /verif/spec/props.json
type ModuleCfg struct {
	Dir  string   `json:"dir"`
	Pkgs []string `json:"pkgs"`
}

type ServiceCfg struct {
	Iface string `json:"iface"` // MsgServer interface (qualified)
	Impl  string `json:"impl"`  // implementing named type (qualified)
}

type PropCfg struct {
	ID         string       `json:"id"`
	Level      string       `json:"level"`
	Modules    []ModuleCfg  `json:"modules"`
	Footprint  []string     `json:"footprint"`  // tables / components the property's predicates read
	Services   []ServiceCfg `json:"services"`   // handler schema: every method must be classified
	ExtraSteps []string     `json:"extra_steps"` // further step functions (BeginBlock) that must be tagged or frame-free
	Exempt     map[string]string `json:"exempt"`  // handler (short name) -> reason why it carries no obligation of this property
	Functions  []string     `json:"functions"`  // additional functions that must be under contract and verified
	Bounded    []string     `json:"bounded"`    // names of bounded stand-ins (both tiers)
	Conformance []string    `json:"conformance"` // bounded conformance runs of assumed contracts (thorough tier only)
	Lean       []string     `json:"lean"`        // Lean files with the mathematical lemmas the ghost-sum rules rest on (thorough tier only)
	Det        *DetCfg      `json:"determinism"` // C10: static effect/determinism analysis
	DeleteOnly []string     `json:"delete_only"` // tables in which step functions may delete rows (static obligation over the SSA call graph)
	Lemmas     []string     `json:"lemmas"`     // SMT-LIB lemma files (spec/lemmas): every check-sat must be unsat
	Explain    string       `json:"explanation"`
	Assumes    []string     `json:"assumptions"`
	Dropped    []string     `json:"dropped_by_translation"`
}

type knownFinding struct {
	When                         *Sx
	Prop, Obligation, Func, What string
	Fixed                        bool
	Raw                          string
}

func loadFindings(path string) []knownFinding {
	b, err := os.ReadFile(path)
	if err != nil {
		return nil
	}
	var out []knownFinding
	for _, ln := range strings.Split(string(b), "\n") {
		ln = strings.TrimSpace(ln)
		if ln == "" || strings.HasPrefix(ln, "#") {
			continue
		}
		k := knownFinding{Raw: ln}
		if strings.HasPrefix(ln, "fixed:") {
			k.Fixed = true
		} else if !strings.HasPrefix(ln, "finding:") {
			continue
		}
		for _, f := range strings.Fields(ln) {
			switch {
			case strings.HasPrefix(f, "property="):
				k.Prop = f[9:]
			case strings.HasPrefix(f, "obligation="):
				k.Obligation = f[11:]
			case strings.HasPrefix(f, "func="):
				k.Func = f[5:]
			}
		}
		if i := strings.Index(ln, " -- "); i >= 0 {
			k.What = ln[i+4:]
		}
		if i := strings.Index(ln, " when="); i >= 0 {
			w := ln[i+6:]
			if j := strings.Index(w, " -- "); j >= 0 {
				w = w[:j]
			}
			if sx, err := ParseOne(strings.TrimSpace(w)); err == nil {
				k.When = sx
			}
		}
		out = append(out, k)
	}
	return out
}

func labelHasProp(label, id string) bool {
	// labels look like "C01.cons", "C03+C07.seller"
	head := label
	if i := strings.Index(label, "."); i >= 0 {
		head = label[:i]
	}
	for _, p := range strings.Split(head, "+") {
		if p == id {
			return true
		}
	}
	return false
}

func contractHasProp(c *Contract, id string) bool {
	for _, p := range c.Props {
		if p == id {
			return true
		}
	}
	for _, e := range c.Ensures {
		if labelHasProp(e.Label, id) {
			return true
		}
	}
	for _, l := range c.Loops {
		for _, i := range l.Inv {
			if labelHasProp(i.Label, id) {
				return true
			}
		}
	}
	return false
}

// writeSet: tables (and "bank") a function may write, transitively, from the SSA call graph.
func writeSet(p *Program, sp *Spec, fn *ssa.Function, seen map[*ssa.Function]bool, out map[string]bool) {
	if fn == nil || seen[fn] || len(fn.Blocks) == 0 {
		return
	}
	seen[fn] = true
	for _, b := range fn.Blocks {
		for _, ins := range b.Instrs {
			if mc, ok := ins.(*ssa.MakeClosure); ok {
				writeSet(p, sp, mc.Fn.(*ssa.Function), seen, out)
				continue
			}
			ci, ok := ins.(ssa.CallInstruction)
			if !ok {
				continue
			}
			cc := ci.Common()
			if cc.IsInvoke() {
				ifn := ifaceName(cc.Value.Type())
				if t := sp.TableByIf[ifn]; t != nil {
					switch cc.Method.Name() {
					case "Insert", "InsertReturningID", "Update", "Save", "Delete", "DeleteBy", "DeleteRange":
						out[t.Name] = true
					}
					continue
				}
				if strings.HasSuffix(ifn, ".BankKeeper") {
					switch cc.Method.Name() {
					case "SendCoins", "SendCoinsFromModuleToAccount", "SendCoinsFromAccountToModule", "SendCoinsFromModuleToModule":
						out["bank"] = true
						out["bank.bal"] = true
					case "MintCoins", "BurnCoins":
						out["bank"] = true
						out["bank.bal"] = true
						out["bank.supply"] = true
					}
				}
				// other repo interfaces: follow every implementation in the loaded repo packages
				if strings.Contains(ifn, "regen-network/regen-ledger") {
					it, _ := cc.Value.Type().Underlying().(*types.Interface)
					if it != nil {
						for _, cand := range p.byName {
							if cand.Signature.Recv() == nil || cand.Name() != cc.Method.Name() || cand.Pkg == nil {
								continue
							}
							if !strings.Contains(cand.Pkg.Pkg.Path(), "regen-network/regen-ledger") {
								continue
							}
							if types.Implements(cand.Signature.Recv().Type(), it) {
								writeSet(p, sp, cand, seen, out)
							}
						}
					}
				}
				continue
			}
			if callee := cc.StaticCallee(); callee != nil {
				if callee.Pkg != nil && strings.Contains(callee.Pkg.Pkg.Path(), "regen-network/regen-ledger") || callee.Parent() != nil || callee.Synthetic != "" {
					writeSet(p, sp, callee, seen, out)
				}
			}
		}
	}
}

// deleteSet: tables in which a function may delete rows, transitively.
func deleteSet(p *Program, sp *Spec, fn *ssa.Function, seen map[*ssa.Function]bool, out map[string]bool) {
	if fn == nil || seen[fn] || len(fn.Blocks) == 0 {
		return
	}
	seen[fn] = true
	for _, b := range fn.Blocks {
		for _, ins := range b.Instrs {
			if mc, ok := ins.(*ssa.MakeClosure); ok {
				deleteSet(p, sp, mc.Fn.(*ssa.Function), seen, out)
				continue
			}
			ci, ok := ins.(ssa.CallInstruction)
			if !ok {
				continue
			}
			cc := ci.Common()
			if cc.IsInvoke() {
				if t := sp.TableByIf[ifaceName(cc.Value.Type())]; t != nil {
					switch cc.Method.Name() {
					case "Delete", "DeleteBy", "DeleteRange":
						out[t.Name] = true
					}
				}
				continue
			}
			if callee := cc.StaticCallee(); callee != nil {
				if callee.Pkg != nil && strings.Contains(callee.Pkg.Pkg.Path(), "regen-network/regen-ledger") || callee.Parent() != nil || callee.Synthetic != "" {
					deleteSet(p, sp, callee, seen, out)
				}
			}
		}
	}
}

type funcReport struct {
	Func      string   `json:"func"`
	Status    string   `json:"status"` // verified | failed | left-subset | frame-only | assumed-callee
	Obls      int      `json:"obligations"`
	Paths     int      `json:"paths"`
	Inlined   []string `json:"inlined,omitempty"`
	Role      string   `json:"role"` // tagged | cone | step-frame
	WriteSet  []string `json:"write_set,omitempty"`
	SolverMs  int64    `json:"solver_ms"`
	Contract  string   `json:"contract_file,omitempty"`
}

type oblReport struct {
	Name   string `json:"name"`
	Func   string `json:"func"`
	Result string `json:"result"`
	Solver string `json:"solver"`
	Ms     int64  `json:"ms"`
}

func cmdCheck(args []string) {
	fs := flag.NewFlagSet("check", flag.ExitOnError)
	prop := fs.String("prop", "", "property id")
	tier := fs.String("tier", "quick", "quick|thorough")
	specDir := fs.String("spec", "/verif/spec", "spec directory")
	outDir := fs.String("out", "/verif", "output root (evidence/, replay/)")
	sec := fs.Int("timeout", 0, "seconds per obligation (0: 10 quick / 60 thorough)")
	keep := fs.String("keep", "", "keep the SMT files in this directory (debugging)")
	fs.Parse(args)
	t0 := time.Now()
	seed, _ := strconv.Atoi(os.Getenv("VERIF_SEED"))
	if *sec == 0 {
		*sec = 10
		if *tier == "thorough" {
			*sec = 60
		}
	}
	var cfgs []PropCfg
	b, err := os.ReadFile(filepath.Join(*specDir, "props.json"))
	if err != nil {
		fatal(err)
	}
	if err := json.Unmarshal(b, &cfgs); err != nil {
		fatal(fmt.Errorf("props.json: %v", err))
	}
	var cfg *PropCfg
	for i := range cfgs {
		if cfgs[i].ID == *prop {
			cfg = &cfgs[i]
		}
	}
	if cfg == nil {
		fatal(fmt.Errorf("property %s not configured", *prop))
	}
	findings := loadFindings("/verif/known_findings.txt")
	for _, k := range findings {
		if !k.Fixed && k.When != nil && k.Func != "" {
			if KnownWhen[k.Func] == nil {
				KnownWhen[k.Func] = map[string]*Sx{}
			}
			KnownWhen[k.Func][k.Obligation] = k.When
		}
	}
	scratch, _ := os.MkdirTemp("/var/tmp", "govc.")
	defer os.RemoveAll(scratch)
	if *keep != "" {
		os.MkdirAll(*keep, 0o755)
		scratch = *keep
		KeepFiles = true
	}
	replayDir := filepath.Join(*outDir, "replay", cfg.ID)
	os.RemoveAll(replayDir)

	var funcs []funcReport
	var obls []oblReport
	var violations []string
	var knownLines []string
	trusted := map[string]bool{}
	nObl, nDis := 0, 0
	nRetried := 0
	var solverMs int64
	var samples []map[string]string
	covers := map[string]string{}
	problem := func(kind, fn, name, detail string, o *Obligation, sess *Session) {
		// known finding?
		for _, k := range findings {
			if !k.Fixed && k.When == nil && k.Obligation == name && (k.Func == "" || k.Func == shortName(fn)) {
				knownLines = append(knownLines, fmt.Sprintf("KNOWN-FINDING: property=%s %s %s -- %s", cfg.ID, shortName(fn), name, k.What))
				return
			}
		}
		os.MkdirAll(replayDir, 0o755)
		rf := filepath.Join(replayDir, sanitize(shortName(fn)+"."+name)+".txt")
		var sb strings.Builder
		fmt.Fprintf(&sb, "property: %s\nfunction: %s\nfailed obligation: %s\nkind: %s\n", cfg.ID, fn, name, kind)
		fmt.Fprintf(&sb, "detail: %s\n", detail)
		suffix := " no-failing-input-found"
		if o != nil {
			fmt.Fprintf(&sb, "clause: %s\ntrace (SSA blocks): %s\nsolver: %s result: %s\n", o.Src, o.Trace, o.Solver, o.Result)
			fmt.Fprintf(&sb, "--- solver output ---\n%s\n", o.Output)
			if o.Model != "" {
				fmt.Fprintf(&sb, "--- model (counterexample of the verification condition) ---\n%s\n", o.Model)
			}
			if sess != nil {
				qf := filepath.Join(replayDir, sanitize(shortName(fn)+"."+name)+".smt2")
				os.WriteFile(qf, []byte(sess.Query(o)), 0o644)
				fmt.Fprintf(&sb, "--- query: %s ---\n", qf)
			}
			if rep := tryReplay(cfg, fn, name, o, sess, replayDir); rep != "" {
				fmt.Fprintf(&sb, "--- replay on the real code ---\n%s\n", rep)
				for _, ln := range strings.Split(rep, "\n") {
					if strings.HasPrefix(strings.TrimSpace(ln), "REPRODUCED") {
						suffix = ""
					}
				}
			}
		}
		os.WriteFile(rf, []byte(sb.String()), 0o644)
		violations = append(violations, fmt.Sprintf("VIOLATION property=%s replay=%s obligation=%s.%s (%s)%s", cfg.ID, rf, shortName(fn), name, kind, suffix))
	}

	for _, m := range cfg.Modules {
		if strings.HasPrefix(m.Dir, "/repo") && repoRoot() != "/repo" {
			m.Dir = repoRoot() + strings.TrimPrefix(m.Dir, "/repo")
		}
		p, sp, err := Setup(m.Dir, m.Pkgs, *specDir)
		if err != nil {
			problem("load-error", m.Dir, "load", err.Error(), nil, nil)
			continue
		}
		// 1. tagged functions
		target := map[string]string{} // func -> role
		var names []string
		for n, c := range sp.Contracts {
			if c.Assumed || c.Inline {
				continue
			}
			if contractHasProp(c, cfg.ID) {
				if p.Func(n) != nil {
					target[n] = "tagged"
				} else if contractInModule(c, m) {
					problem("missing-target", n, "contract-target", "function under contract no longer exists", nil, nil)
				}
			}
		}
		for _, f := range cfg.Functions {
			if p.Func(f) != nil {
				if sp.Contracts[f] == nil {
					problem("missing-contract", f, "contract", "function listed for the property has no contract", nil, nil)
				} else {
					target[f] = "tagged"
				}
			}
		}
		// 2. handler schema
		foot := map[string]bool{}
		for _, f := range cfg.Footprint {
			foot[f] = true
		}
		steps := map[string]*ssa.Function{}
		for _, svc := range cfg.Services {
			it := p.LookupType(svc.Iface)
			impl := p.LookupType(svc.Impl)
			if it == nil || impl == nil {
				continue // service lives in another module group
			}
			iface := it.Underlying().(*types.Interface)
			for i := 0; i < iface.NumMethods(); i++ {
				mth := iface.Method(i)
				fn := p.Prog.LookupMethod(impl, mth.Pkg(), mth.Name())
				if fn == nil {
					fn = p.Prog.LookupMethod(types.NewPointer(impl), mth.Pkg(), mth.Name())
				}
				if fn == nil {
					problem("unclassified-handler", svc.Impl+"."+mth.Name(), "handler", "no implementation found", nil, nil)
					continue
				}
				steps[fn.String()] = fn
			}
		}
		for _, e := range cfg.ExtraSteps {
			if fn := p.Func(e); fn != nil {
				steps[e] = fn
			}
		}
		var stepNames []string
		for n := range steps {
			stepNames = append(stepNames, n)
		}
		sort.Strings(stepNames)
		if cfg.Det != nil {
			checked, finds, listed := determinismCheck(p, cfg, steps)
			bad := map[string][]string{}
			for _, f := range finds {
				bad[f.Func] = append(bad[f.Func], f.What)
			}
			for _, fnn := range checked {
				nObl++
				if len(bad[fnn]) == 0 {
					nDis++
					obls = append(obls, oblReport{Name: "static.deterministic", Func: fnn, Result: "unsat", Solver: "static"})
				} else {
					obls = append(obls, oblReport{Name: "static.deterministic", Func: fnn, Result: "sat", Solver: "static"})
					problem("refuted", fnn, "static.deterministic", strings.Join(bad[fnn], "; "), nil, nil)
				}
			}
			for k, why := range listed {
				trusted["listed exception: "+k+" -- "+why] = true
			}
			funcs = append(funcs, funcReport{Func: fmt.Sprintf("%d functions reachable from the consensus entry points of %s", len(checked), m.Dir), Status: "static analysis", Role: "determinism", Obls: len(checked)})
		}
		if len(cfg.DeleteOnly) > 0 {
			allowed := map[string]bool{}
			for _, t := range cfg.DeleteOnly {
				allowed[t] = true
			}
			for _, n := range stepNames {
				ds := map[string]bool{}
				deleteSet(p, sp, steps[n], map[*ssa.Function]bool{}, ds)
				nObl++
				bad := ""
				for t := range ds {
					if !allowed[t] {
						bad += " " + t
					}
				}
				if bad == "" {
					nDis++
					obls = append(obls, oblReport{Name: "static.deletes", Func: shortName(n), Result: "unsat", Solver: "static"})
				} else {
					obls = append(obls, oblReport{Name: "static.deletes", Func: shortName(n), Result: "sat", Solver: "static"})
					problem("refuted", n, "static.deletes", "step function may delete rows of"+bad+" (referenced rows must never be deleted)", nil, nil)
				}
			}
		}
		for _, n := range stepNames {
			fn := steps[n]
			ws := map[string]bool{}
			writeSet(p, sp, fn, map[*ssa.Function]bool{}, ws)
			touches := false
			for w := range ws {
				if foot[w] || foot["*"] {
					touches = true
				}
			}
			if reason, ok := cfg.Exempt[shortName(n)]; ok {
				if _, tagged := target[n]; !tagged {
					nObl++
					nDis++
					funcs = append(funcs, funcReport{Func: n, Status: "exempt: " + reason, Role: "step-exempt", WriteSet: sortedKeys(ws), Obls: 1})
					obls = append(obls, oblReport{Name: "step.exempt", Func: shortName(n), Result: "unsat", Solver: "exempt-by-statement"})
					continue
				}
			}
			if !touches {
				// discharged by frame: the handler writes nothing the property's predicates read
				nObl++
				nDis++
				funcs = append(funcs, funcReport{Func: n, Status: "frame-only", Role: "step-frame", WriteSet: sortedKeys(ws), Obls: 1})
				obls = append(obls, oblReport{Name: "step.frame", Func: shortName(n), Result: "unsat", Solver: "frame"})
				continue
			}
			if _, ok := target[n]; !ok {
				problem("unclassified-handler", n, "handler", fmt.Sprintf("handler writes %v (in the property's footprint) but carries no %s obligations", sortedKeys(ws), cfg.ID), nil, nil)
			}
		}
		// 3. cone: contracted callees of targets, transitively
		var work []string
		for n := range target {
			work = append(work, n)
		}
		for len(work) > 0 {
			n := work[len(work)-1]
			work = work[:len(work)-1]
			fn := p.Func(n)
			if fn == nil {
				continue
			}
			for _, callee := range staticCallees(fn) {
				cn := callee.String()
				c := sp.Contracts[cn]
				if c == nil || c.Inline {
					// inlined callee: look through it
					if _, seen := target["~"+cn]; !seen && callee.Pkg != nil && strings.Contains(callee.Pkg.Pkg.Path(), "regen-network/regen-ledger") {
						target["~"+cn] = "through"
						work = append(work, cn)
					}
					continue
				}
				if c.Assumed {
					continue
				}
				if callee.Pkg != nil && verifiedElsewhere(cfg, callee.Pkg.Pkg.Path()) {
					trusted["contract of "+shortName(cn)+" (repo function of types/math: verified against the apd contracts by the check of property C19, where math.Dec is concrete)"] = true
					continue
				}
				if _, ok := target[cn]; !ok {
					target[cn] = "cone"
					work = append(work, cn)
				}
			}
		}
		for n := range target {
			if !strings.HasPrefix(n, "~") {
				names = append(names, n)
			}
		}
		sort.Strings(names)
		// 4. generate + discharge
		type item = struct {
			S *Session
			O *Obligation
		}
		var items []item
		results := map[string]*FuncResult{}
		for _, n := range names {
			fn := p.Func(n)
			if fn == nil || len(fn.Blocks) == 0 {
				// contracted function of another module (e.g. types/math): verified where its module is loaded
				continue
			}
			r := VerifyFunction(p, sp, fn, sp.Contracts[n])
			results[n] = r
			for _, o := range r.Obls {
				items = append(items, item{r.Sess, o})
			}
		}
		DischargeAll(items, scratch, *sec, 16, *tier == "thorough")
		// obligations left undecided (timeout / unknown) are retried once with six times the budget and less
		// parallelism: a loaded machine must not turn into an alarm
		var retry []item
		for _, it := range items {
			if it.O.Result == "timeout" || it.O.Result == "unknown" {
				retry = append(retry, it)
			}
		}
		if len(retry) > 0 && len(retry) <= 64 {
			DischargeAll(retry, scratch, *sec*6, 4, *tier == "thorough")
			nRetried += len(retry)
		}
		for _, n := range names {
			r := results[n]
			if r == nil {
				funcs = append(funcs, funcReport{Func: n, Status: "verified-in-own-module", Role: target[n]})
				trusted["contract of "+shortName(n)+" (repo function of another module; verified by the check of the property that owns it)"] = true
				continue
			}
			fr := funcReport{Func: n, Status: "verified", Role: target[n], Obls: 0, Paths: r.Paths, Inlined: r.Inlined, Contract: r.Contract.File}
			if r.Subset != "" {
				fr.Status = "left-subset"
				problem("left-verifiable-subset", n, "subset", r.Subset, nil, nil)
			}
			for _, a := range r.Assumed {
				trusted[a] = true
			}
			coverOK := map[string]bool{}
			coverUndecided := map[string]bool{}
			for _, o := range r.Obls {
				solverMs += o.Ms
				fr.SolverMs += o.Ms
				if o.Kind == "known" {
					if o.Result == "sat" {
						for _, k := range findings {
							if !k.Fixed && k.Func == shortName(n) && k.Obligation == "post."+o.Label {
								knownLines = append(knownLines, fmt.Sprintf("KNOWN-FINDING: property=%s %s %s when=%s -- %s", k.Prop, shortName(n), k.Obligation, k.When, k.What))
							}
						}
					}
					continue
				}
				if o.Cover {
					base := strings.SplitN(o.Name, "#", 2)[0]
					if o.Result == "sat" || o.Result == "skipped" {
						coverOK[base] = true
					} else if _, ok := coverOK[base]; !ok {
						coverOK[base] = false
					}
					if o.Result != "sat" && o.Result != "skipped" && o.Result != "unsat" {
						coverUndecided[base] = true
					}
					continue
				}
				nObl++
				fr.Obls++
				obls = append(obls, oblReport{Name: o.Name, Func: shortName(n), Result: o.Result, Solver: o.Solver, Ms: o.Ms})
				if o.Result == "unsat" {
					nDis++
					if len(samples) < 3 && o.Kind == "post" && labelHasProp(o.Label, cfg.ID) {
						samples = append(samples, map[string]string{"obligation": shortName(n) + "#" + o.Name, "clause": o.Src, "solver": o.Solver, "result": o.Result})
					}
					continue
				}
				fr.Status = "failed"
				kind := "refuted"
				if o.Result != "sat" {
					kind = "undecided:" + o.Result
				}
				base := strings.SplitN(o.Name, "#", 2)[0]
				problem(kind, n, base, firstLines(o.Output, 3), o, r.Sess)
			}
			for c, ok := range coverOK {
				covers[shortName(n)+"#"+c] = map[bool]string{true: "reachable", false: "UNREACHABLE"}[ok]
				if !ok {
					fr.Status = "failed"
					if coverUndecided[c] {
						problem("vacuous", n, c, "cover query not shown satisfiable within the (retried, sixfold) budget: reachability of the precondition / success path / antecedent is undecided", nil, nil)
					} else {
						problem("vacuous", n, c, "cover query unsatisfiable: precondition / success path is contradictory", nil, nil)
					}
				}
			}
			funcs = append(funcs, fr)
		}
	}
	// pure lemmas (composition of contracts into the property statement)
	for _, lf := range cfg.Lemmas {
		path := filepath.Join(*specDir, "lemmas", lf)
		names, results, solver, ms := runLemmaFile(path, *sec*3)
		solverMs += ms
		if len(names) == 0 {
			problem("lemma-error", lf, "lemma", "no lemma could be run: "+strings.Join(results, " "), nil, nil)
		}
		for i, n := range names {
			nObl++
			r := "error"
			if i < len(results) {
				r = results[i]
			}
			obls = append(obls, oblReport{Name: "lemma." + n, Func: lf, Result: r, Solver: solver})
			if r == "unsat" {
				nDis++
			} else {
				problem("undecided:"+r, lf, "lemma."+n, "lemma not proved", nil, nil)
			}
		}
		trusted["assumed facts A1.. stated at the top of spec/lemmas/"+lf] = true
	}
	// bounded stand-ins (never counted as discharged proof obligations)
	var boundedRes []boundedResult
	bnames := append([]string(nil), cfg.Bounded...)
	if *tier == "thorough" {
		// conformance runs of assumed contracts against the real libraries (bounded, thorough tier only)
		bnames = append(bnames, cfg.Conformance...)
	}
	for _, bn := range bnames {
		br := runBounded(bn)
		boundedRes = append(boundedRes, br)
		if br.Status != "ok" {
			os.MkdirAll(replayDir, 0o755)
			cats := br.Cats
			if br.Status == "error" || len(cats) == 0 {
				cats = map[string][]string{"": br.Fails}
			}
			var cnames []string
			for c := range cats {
				cnames = append(cnames, c)
			}
			sort.Strings(cnames)
			unknownKinds := 0
			for _, c := range cnames {
				name := "bounded." + bn
				if c != "" {
					name += "." + c
				}
				// a recorded finding of this stand-in, identified by the kind of input that fails
				isKnown := false
				for _, k := range findings {
					if !k.Fixed && k.Func == "bounded."+bn && k.Obligation == c && c != "" && br.Status == "failed" {
						knownLines = append(knownLines, fmt.Sprintf("KNOWN-FINDING: property=%s %s %s -- %s", cfg.ID, k.Func, c, k.What))
						isKnown = true
					}
				}
				if isKnown {
					continue
				}
				unknownKinds++
				rf := filepath.Join(replayDir, sanitize(name)+".txt")
				os.WriteFile(rf, []byte(fmt.Sprintf("property: %s\nbounded stand-in: %s\nkind: %s\nbound: %s\ncases run: %d\nfailing inputs (run on the real functions):\n%s\n", cfg.ID, bn, c, br.Bound, br.Cases, strings.Join(cats[c], "\n"))), 0o644)
				suffix := ""
				if br.Status == "error" {
					suffix = " no-failing-input-found"
				}
				violations = append(violations, fmt.Sprintf("VIOLATION property=%s replay=%s obligation=%s (%s)%s", cfg.ID, rf, name, br.Status, suffix))
			}
			if unknownKinds == 0 {
				boundedRes[len(boundedRes)-1].Status = "recorded findings only (every failing kind is listed in known_findings.txt)"
			}
		}
	}
	// mathematical lemmas checked by Lean/Mathlib (thorough tier): the delta rule of the ghost sums and the
	// sub-family facts of the iterator model
	var leanRes []map[string]interface{}
	leanOK := false
	if *tier == "thorough" {
		for _, lf := range cfg.Lean {
			path := filepath.Join(*specDir, "lean", lf)
			t1 := time.Now()
			ctx, cancel := context.WithTimeout(context.Background(), 30*time.Minute)
			out, err := exec.CommandContext(ctx, "lean", path).CombinedOutput()
			cancel()
			status := "ok"
			if err != nil || strings.Contains(string(out), "error:") || strings.Contains(string(out), "sorry") {
				status = "failed"
			}
			src, _ := os.ReadFile(path)
			var thms []string
			for _, ln := range strings.Split(string(src), "\n") {
				if strings.HasPrefix(ln, "theorem ") {
					thms = append(thms, strings.Fields(ln)[1])
				}
			}
			leanRes = append(leanRes, map[string]interface{}{"file": path, "status": status, "wall_s": time.Since(t1).Seconds(), "theorems": thms, "checker": "lean 4 + Mathlib (lean <file>)"})
			if status != "ok" {
				os.MkdirAll(replayDir, 0o755)
				rf := filepath.Join(replayDir, "lean."+lf+".txt")
				os.WriteFile(rf, []byte(fmt.Sprintf("property: %s\nlean file: %s\nstatus: %s\noutput:\n%s\n", cfg.ID, path, status, firstLines(string(out), 40))), 0o644)
				violations = append(violations, fmt.Sprintf("VIOLATION property=%s replay=%s obligation=lean.%s (lemma not checked) no-failing-input-found", cfg.ID, rf, lf))
			} else {
				leanOK = true
			}
		}
	}
	// unit corpus of the engine itself (thorough tier): tiny functions with known verdicts (shadowing,
	// aliasing, loop cuts, frames, panics, machine arithmetic); a mismatch means the engine is broken
	var unitRes map[string]interface{}
	if *tier == "thorough" {
		unitDir := "/verif/engine/testdata/unit"
		if _, err := os.Stat(unitDir); err == nil {
			t1 := time.Now()
			self, _ := os.Executable()
			ctx, cancel := context.WithTimeout(context.Background(), 10*time.Minute)
			cmd := exec.CommandContext(ctx, self, "verify", "-expect", "-spec", *specDir, "-dir", unitDir, "-pkgs", ".")
			cmd.Env = append(os.Environ(), "GOVC_REPO=")
			out, err := cmd.CombinedOutput()
			cancel()
			nOK, nBad := strings.Count(string(out), "UNIT-OK "), strings.Count(string(out), "UNIT-MISMATCH ")
			unitRes = map[string]interface{}{"dir": unitDir, "functions": nOK + nBad, "mismatches": nBad, "wall_s": time.Since(t1).Seconds()}
			if err != nil || nBad > 0 || nOK == 0 {
				os.MkdirAll(replayDir, 0o755)
				rf := filepath.Join(replayDir, "engine.unit.txt")
				os.WriteFile(rf, []byte(fmt.Sprintf("property: %s\nengine unit corpus: %d ok, %d mismatches (err=%v)\noutput:\n%s\n", cfg.ID, nOK, nBad, err, string(out))), 0o644)
				violations = append(violations, fmt.Sprintf("VIOLATION property=%s replay=%s obligation=engine.unit (verdict mismatch in the unit corpus of the verifier) no-failing-input-found", cfg.ID, rf))
			}
		}
	}
	// dedupe violations (same obligation on several paths)
	violations = uniq(violations)
	knownLines = uniq(knownLines)
	if nObl == 0 {
		violations = append(violations, fmt.Sprintf("VIOLATION property=%s replay=%s obligation=none (vacuous: zero obligations generated) no-failing-input-found", cfg.ID, replayDir))
	}
	wall := time.Since(t0).Seconds()
	var tb []string
	for k := range trusted {
		tb = append(tb, k)
	}
	sort.Strings(tb)
	tb = append(tb, "x/tools go/ssa translation of Go to SSA; govc semantics of the SSA subset; z3 4.8.12 / z3 5.1.0 / cvc5 1.0.3",
		"cosmos-sdk baseapp: a message that returns an error or panics has no effect on state; handlers and BeginBlock are the only writers of the module stores",
		map[bool]string{
			false: "lemma L-sum (delta rule of the ghost sums, sub-family facts of iterator prefix sums): assumed in this run; machine-checked by Lean/Mathlib (spec/lean/LSum.lean) in the thorough tier of C01",
			true:  "lemma L-sum (delta rule of the ghost sums, sub-family facts of iterator prefix sums): machine-checked in this run by Lean/Mathlib (spec/lean/LSum.lean); the correspondence between the Lean statements and the engine's SMT encoding of the rules is by inspection",
		}[leanOK])
	if len(samples) == 0 {
		for _, o := range obls {
			if len(samples) < 3 {
				samples = append(samples, map[string]string{"obligation": o.Func + "#" + o.Name, "solver": o.Solver, "result": o.Result})
			}
		}
	}
	if len(obls) > 400 {
		// keep the evidence file small: per-obligation detail for failures + a prefix
		var keep []oblReport
		for _, o := range obls {
			if o.Result != "unsat" || len(keep) < 200 {
				keep = append(keep, o)
			}
		}
		obls = keep
	}
	level := cfg.Level
	if level == "" {
		level = "proof"
	}
	cov := map[string]interface{}{
		"obligations":              nObl,
		"discharged":               nDis,
		"checker_cmd":              fmt.Sprintf("/verif/bin/govc check -prop %s -tier %s (z3-new 5.1.0 first; z3 4.8.12 and cvc5 1.0.3 on unknown/timeout; %ds per obligation)", cfg.ID, *tier, *sec),
		"trusted_base":             tb,
		"functions_under_contract": funcs,
		"per_obligation":           obls,
		"solver_time_s":            float64(solverMs) / 1000,
		"covers":                   covers,
		"samples":                  samples,
		"dropped_by_translation":   append([]string{"error message text", "events, gas, telemetry, logging", "termination", "integer overflow of machine arithmetic (integers are mathematical; narrowing conversions and unsigned subtraction wrap exactly)"}, cfg.Dropped...),
		"explanation":              cfg.Explain,
		"known_findings_reported":  knownLines,
		"bounded_checks":           boundedRes,
		"retried_with_longer_budget": nRetried,
		"lean_lemmas":              leanRes,
		"engine_unit_corpus":       unitRes,
	}
	ev := map[string]interface{}{
		"property_id": cfg.ID,
		"tier":        *tier,
		"seed":        seed,
		"level":       level,
		"coverage":    cov,
		"assumptions": append([]string{"machine arithmetic treated as mathematical except narrowing conversions and unsigned subtraction (both wrap exactly)", "the parameters of a function under contract do not alias each other at entry (request messages are tree-shaped); a write to an object reachable from a parameter must be declared (`modifies *<path>`, checked at every return) and a call through a contract is refused when it passes a modified object twice", "append never shares the backing array of its first argument"}, cfg.Assumes...),
		"wall_s":      wall,
		"violations":  len(violations),
	}
	os.MkdirAll(filepath.Join(*outDir, "evidence"), 0o755)
	eb, _ := json.MarshalIndent(ev, "", " ")
	os.WriteFile(filepath.Join(*outDir, "evidence", cfg.ID+".json"), eb, 0o644)
	for _, k := range knownLines {
		fmt.Println(k)
	}
	fmt.Printf("%s %s: %d obligations, %d discharged, %d functions, %.1fs\n", cfg.ID, *tier, nObl, nDis, len(funcs), wall)
	if len(violations) > 0 {
		for _, v := range violations {
			fmt.Println(v)
		}
		if *keep == "" {
			os.RemoveAll(scratch)
		}
		os.Exit(1)
	}
}

// verifiedElsewhere: packages whose functions are verified under a different view of an abstract
// type (types/math: math.Dec is a record there and an abstract value for its clients).
func verifiedElsewhere(cfg *PropCfg, pkg string) bool {
	return pkg == "github.com/regen-network/regen-ledger/types/v2/math" && cfg.ID != "C19"
}

func contractInModule(c *Contract, m ModuleCfg) bool {
	return strings.HasPrefix(c.File, m.Dir+"/") || strings.HasPrefix(c.File, filepath.Dir(m.Dir)+"/")
}

func uniq(xs []string) []string {
	seen := map[string]bool{}
	var out []string
	for _, x := range xs {
		if !seen[x] {
			seen[x] = true
			out = append(out, x)
		}
	}
	return out
}

func staticCallees(fn *ssa.Function) []*ssa.Function {
	var out []*ssa.Function
	seen := map[*ssa.Function]bool{}
	var visit func(f *ssa.Function)
	visit = func(f *ssa.Function) {
		for _, b := range f.Blocks {
			for _, ins := range b.Instrs {
				if mc, ok := ins.(*ssa.MakeClosure); ok {
					af := mc.Fn.(*ssa.Function)
					if !seen[af] {
						seen[af] = true
						visit(af)
					}
				}
				if ci, ok := ins.(ssa.CallInstruction); ok {
					if c := ci.Common().StaticCallee(); c != nil && !seen[c] {
						seen[c] = true
						out = append(out, c)
					}
				}
			}
		}
	}
	visit(fn)
	return out
}

func fatal(err error) {
	fmt.Fprintln(os.Stderr, "govc:", err)
	os.Exit(2)
}


// repoRoot: the repository under verification (/repo; GOVC_REPO overrides it for runs of the seeded corpus on a scratch clone).
func repoRoot() string {
	if r := os.Getenv("GOVC_REPO"); r != "" {
		return r
	}
	return "/repo"
}
