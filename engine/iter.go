package main

import (
	"golang.org/x/tools/go/ssa"
)

// IterObj / IterState: ORM iterators (ghost sequence model), see DESIGN.md 3.1.
type IterObj struct {
	Table *Table
	Name  string
}

type IterState struct {
	Pos string
}

func (x *Exec) iterInvoke(st *State, fr *frame, it IterV, method string, args []Val, k func(st *State, v Val)) bool {
	subsetf("ORM iterator method %s not modelled yet", method)
	return true
}

func (x *Exec) iterStatic(st *State, fr *frame, fn *ssa.Function, args []Val, k func(st *State, v Val)) bool {
	return false
}

func (x *Exec) ormList(st *State, fr *frame, t *Table, m string, args []Val, k func(st *State, v Val)) {
	subsetf("ORM %s.%s not modelled yet", t.Name, m)
}

func (x *Exec) ormDeleteRange(st *State, fr *frame, t *Table, m string, args []Val, k func(st *State, v Val)) {
	subsetf("ORM %s.%s not modelled yet", t.Name, m)
}

func (x *Exec) havocIter(st *State, it *IterObj, is *IterState) {}
