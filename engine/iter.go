package main

import (
	"fmt"
	"go/types"
	"strings"

	"golang.org/x/tools/go/ssa"
)

// ORM iterators, index keys, range deletes (assumed ORM contract, DESIGN.md 3.1).
//
// List/ListRange return a ghost sequence of n >= 0 distinct rows of the table: exactly the rows
// whose index fields match the prefix / lie in the range. Next advances the position, Value
// returns a fresh message object for the row at the current position. An iterator may only be
// read while its table is unmodified since List (otherwise the function leaves the subset).

const iterTrust = "builtin:cosmos-sdk/orm iterator contract (List/ListRange/Next/Value/Close, DeleteBy/DeleteRange)"

type IterObj struct {
	Table  *Table
	Name   string
	N      string   // length of the ghost sequence
	Match  func(st *State, key string) string // membership predicate of a key, evaluated in st
	Writes int      // write counter of the table at creation
	Keys   []string // key constants handed out by Value (distinct positions)
	First  string
	Cond   string // condition under which the iterator is valid (List succeeded)
	IdxFields []*TField
	OrderField *TField          // first index field after the equality prefix: rows come in its order
	MatchSig  string            // syntactic signature of the membership predicate
	Psum      map[string]string // ghost-sum component -> prefix-sum function  psum(gkey, i) = sum of the terms of rows 0..i-1 with that ghost key
}

type IterState struct {
	Pos string
}

func (x *Exec) tableOfIndexKeyType(t types.Type) *Table {
	n, ok := types.Unalias(t).(*types.Named)
	if !ok {
		return nil
	}
	name := n.Obj().Name()
	var best *Table
	for _, tb := range x.s.Spec.Tables {
		if strings.HasPrefix(name, tb.Name) && n.Obj().Pkg() == tb.Row.Obj().Pkg() {
			if best == nil || len(tb.Name) > len(best.Name) {
				best = tb
			}
		}
	}
	return best
}

func (x *Exec) iterStatic(st *State, fr *frame, fn *ssa.Function, args []Val, k func(st *State, v Val)) bool {
	if fn.Signature.Recv() == nil || fn.Pkg == nil || !strings.HasPrefix(fn.Pkg.Pkg.Path(), "github.com/regen-network/regen-ledger/api/") {
		return false
	}
	rt := fn.Signature.Recv().Type()
	rn, ok := types.Unalias(rt).(*types.Named)
	if !ok {
		return false
	}
	rname := rn.Obj().Name()
	switch {
	case strings.HasSuffix(rname, "IndexKey") && strings.HasPrefix(fn.Name(), "With"):
		t := x.tableOfIndexKeyType(rt)
		if t == nil {
			return false
		}
		ik := IndexKey{Table: t.Name}
		// the full field list of the index: the parameters of its longest With... method
		ms := types.NewMethodSet(rt)
		best := 0
		for i := 0; i < ms.Len(); i++ {
			m := ms.At(i).Obj().(*types.Func)
			if !strings.HasPrefix(m.Name(), "With") {
				continue
			}
			sig := m.Type().(*types.Signature)
			if sig.Params().Len() > best {
				best = sig.Params().Len()
				ik.All = nil
				for j := 0; j < sig.Params().Len(); j++ {
					if f := findField(t.Fields, sig.Params().At(j).Name()); f != nil {
						ik.All = append(ik.All, f.Go)
					}
				}
			}
		}
		for i, p := range fn.Params[1:] {
			f := findField(t.Fields, p.Name())
			if f == nil {
				subsetf("index key field %s of table %s not found", p.Name(), t.Name)
			}
			ik.Fields = append(ik.Fields, f.Go)
			ik.Vals = append(ik.Vals, args[i+1])
		}
		k(st, ik)
		return true
	case strings.HasSuffix(rname, "Iterator") && fn.Name() == "Value":
		r, ok := args[0].(Rec)
		if !ok || len(r.F) == 0 {
			return false
		}
		iv, ok := r.F[0].(IterV)
		if !ok {
			return false
		}
		x.iterValue(st, fr, iv.It, k)
		return true
	}
	return false
}

// idxFieldTerm: the ordering/equality term of an index field of the row under key.
// Timestamps are compared as (seconds, nanos) with nil = (0,0): one Int  sec*1e9+nanos.
func (x *Exec) idxFieldTerm(st *State, t *Table, f *TField, key string) string {
	if f.Kind == "msg" {
		set := fmt.Sprintf("(select %s %s)", x.s.comp(st, t.Name+"."+f.Go+".set"), key)
		sec := fmt.Sprintf("(select %s %s)", x.s.comp(st, t.Name+"."+f.Go+".Seconds"), key)
		nn := fmt.Sprintf("(select %s %s)", x.s.comp(st, t.Name+"."+f.Go+".Nanos"), key)
		return ite(set, fmt.Sprintf("(tsof %s %s)", sec, nn), "0")
	}
	return x.fieldAt(st, t, f, key)
}

func (x *Exec) idxValTerm(st *State, v Val) string {
	for {
		iv, ok := v.(Iface)
		if !ok || iv.Dyn == nil {
			break
		}
		v = iv.V
	}
	switch a := v.(type) {
	case Sc:
		return a.T
	case Slice:
		return x.s.bcode(st, a)
	case Ptr: // *timestamppb.Timestamp
		if a.Loc == nil {
			return "0"
		}
		r, ok := x.s.load(st, a).(Rec)
		if !ok {
			subsetf("index key value of kind %T", v)
		}
		var sec, nn string
		stt := a.Loc.Typ.Underlying().(*types.Struct)
		for i := 0; i < stt.NumFields(); i++ {
			switch stt.Field(i).Name() {
			case "Seconds":
				sec = r.F[i].(Sc).T
			case "Nanos":
				nn = r.F[i].(Sc).T
			}
		}
		if sec == "" {
			subsetf("index key pointer value is not a timestamp")
		}
		return ite(a.Nil, "0", fmt.Sprintf("(tsof %s %s)", sec, nn))
	}
	subsetf("index key value of kind %T", v)
	return ""
}

func unwrapIndexKey(v Val) (IndexKey, bool) {
	for {
		switch a := v.(type) {
		case IndexKey:
			return a, true
		case Iface:
			if a.Dyn == nil {
				return IndexKey{}, false
			}
			v = a.V
		default:
			return IndexKey{}, false
		}
	}
}

func (x *Exec) fieldsOf(t *Table, names []string) []*TField {
	var out []*TField
	for _, n := range names {
		for _, f := range t.Fields {
			if f.Go == n {
				out = append(out, f)
			}
		}
	}
	return out
}

// matcher builds the membership predicate for List (prefix) or ListRange / DeleteRange (from,to).
func (x *Exec) matcher(st *State, t *Table, m string, args []Val) (func(st *State, key string) string, []*TField) {
	x.lastOrderField = nil
	x.lastRangeBad = "false"
	if m == "List" || m == "DeleteBy" {
		ik, ok := unwrapIndexKey(args[0])
		if !ok {
			subsetf("ORM %s.%s with an unknown index key", t.Name, m)
		}
		fs := x.fieldsOf(t, ik.Fields)
		if len(ik.All) > len(ik.Fields) {
			if of := x.fieldsOf(t, ik.All[len(ik.Fields):len(ik.Fields)+1]); len(of) == 1 {
				x.lastOrderField = of[0]
			}
		}
		var vals []string
		for _, v := range ik.Vals {
			vals = append(vals, x.idxValTerm(st, v))
		}
		return func(st2 *State, key string) string {
			var cs []string
			for i, f := range fs {
				cs = append(cs, eq(x.idxFieldTerm(st2, t, f, key), vals[i]))
			}
			return and(cs...)
		}, fs
	}
	from, ok1 := unwrapIndexKey(args[0])
	to, ok2 := unwrapIndexKey(args[1])
	if !ok1 || !ok2 || len(from.Fields) != 1 || len(to.Fields) != 1 || from.Fields[0] != to.Fields[0] {
		subsetf("ORM %s.%s: only single-field ranges are modelled", t.Name, m)
	}
	fs := x.fieldsOf(t, from.Fields)
	lo, hi := x.idxValTerm(st, from.Vals[0]), x.idxValTerm(st, to.Vals[0])
	// the ORM rejects a range whose start is not strictly before its end ("invalid range iteration keys"):
	// a deterministic error, found by the conformance run conf_orm (the first model assumed any range was fine)
	x.lastRangeBad = fmt.Sprintf("(not (< %s %s))", lo, hi)
	return func(st2 *State, key string) string {
		v := x.idxFieldTerm(st2, t, fs[0], key)
		return fmt.Sprintf("(and (<= %s %s) (<= %s %s))", lo, v, v, hi)
	}, fs
}

func (x *Exec) ormList(st *State, fr *frame, t *Table, m string, args []Val, k func(st *State, v Val)) {
	s := x.s
	s.Assumed[iterTrust] = true
	match, fs := x.matcher(st, t, m, args)
	io := or(s.ioFail(st), x.lastRangeBad)
	eid := s.freshErrID()
	n := s.declare(s.fresh("iter.n"), "Int")
	s.fact("(>= " + n + " 0)")
	it := &IterObj{Table: t, Name: s.fresh("iter:" + t.Name), N: n, Match: match, Writes: st.wcount[t.Name], Cond: not(io), IdxFields: fs, OrderField: x.lastOrderField,
		MatchSig: match(st, "k!sig"), Psum: map[string]string{}}
	st.iters[it] = &IterState{Pos: "(- 1)"}
	for _, g := range s.Spec.GhostSums {
		if g.Table != t.Name {
			continue
		}
		f := q(s.fresh("psum:" + g.Comp))
		gks := keySortOf(len(g.Key))
		s.decls = append(s.decls, fmt.Sprintf("(declare-fun %s (%s Int) Real)", f, gks))
		it.Psum[g.Comp] = f
		st.assume(fmt.Sprintf("(forall ((g!q %s)) (! (= (%s g!q 0) 0.0) :pattern ((%s g!q 0))))", gks, f, f))
		// non-negative summands: the prefix sums grow along the sequence and the total over the listed rows is at
		// most the aggregate over all rows (a sub-family of a family of non-negative reals; same trust class as
		// lemma L-sum). Stated under the premise that every stored row has a non-negative summand.
		ksortQ := keySortOf(len(t.PK))
		_, termQ := x.ghostTerm(st, g, x.storedFields(st, t, "k!q"))
		hasQ := s.comp(st, t.Name+".has")
		nonneg := fmt.Sprintf("(forall ((k!q %s)) (! (=> (select %s k!q) (>= %s 0.0)) :pattern ((select %s k!q))))", ksortQ, hasQ, termQ, hasQ)
		mono := fmt.Sprintf("(forall ((g!q %s) (i!q Int) (j!q Int)) (! (=> (and (<= 0 i!q) (<= i!q j!q) (<= j!q %s)) (<= (%s g!q i!q) (%s g!q j!q))) :pattern ((%s g!q i!q) (%s g!q j!q))))",
			gks, n, f, f, f, f)
		bound := fmt.Sprintf("(forall ((g!q %s)) (! (<= (%s g!q %s) (select %s g!q)) :pattern ((%s g!q %s))))", gks, f, n, s.comp(st, g.Comp), f, n)
		st.assume(implies(nonneg, and(mono, bound)))
	}
	// completeness for emptiness: n = 0 iff no row matches (quantified, assumed ORM contract)
	ksort := keySortOf(len(t.PK))
	hasArr := s.comp(st, t.Name+".has")
	st.assume(implies(and(not(io), eq(n, "0")),
		fmt.Sprintf("(forall ((k!q %s)) (! (=> (select %s k!q) (not %s)) :pattern ((select %s k!q))))", ksort, hasArr, match(st, "k!q"), hasArr)))
	k(st, Rec{F: []Val{Rec{F: []Val{IterV{it}}}, Err{ite(io, eid, "0"), ite(io, eid, "0")}}})
}

func (x *Exec) iterInvoke(st *State, fr *frame, iv IterV, method string, args []Val, k func(st *State, v Val)) bool {
	it := iv.It
	is := st.iters[it]
	if is == nil {
		subsetf("iterator used outside the path that created it")
	}
	switch method {
	case "Next":
		// advances while elements remain; an exhausted iterator stays at position n
		np := "(+ " + is.Pos + " 1)"
		if is.Pos == "(- 1)" {
			np = "0"
		}
		more := fmt.Sprintf("(< %s %s)", np, it.N)
		st.iters[it] = &IterState{Pos: ite(more, np, it.N)}
		k(st, scBool(more))
	case "Close":
		k(st, Err{"0", "0"})
	default:
		subsetf("ORM iterator method %s not modelled", method)
	}
	return true
}

func (x *Exec) iterValue(st *State, fr *frame, it *IterObj, k func(st *State, v Val)) {
	s := x.s
	is := st.iters[it]
	if is == nil {
		subsetf("iterator used outside the path that created it")
	}
	t := it.Table
	if st.wcount[t.Name] != it.Writes {
		subsetf("iterator over table %s read after the table was modified", t.Name)
	}
	// the row at the current position: a key constant with the facts of the sequence
	key := s.declare(s.fresh("iter.key:"+t.Name), keySortOf(len(t.PK)))
	inRange := fmt.Sprintf("(and (<= 0 %s) (< %s %s))", is.Pos, is.Pos, it.N)
	st.assume(implies(inRange, and(fmt.Sprintf("(select %s %s)", s.comp(st, t.Name+".has"), key), it.Match(st, key))))
	x.wfInstance(st, t, key)
	// prefix sums of the ghost aggregates over the sequence (lemma L-sum along the iteration)
	for _, g := range s.Spec.GhostSums {
		f, ok := it.Psum[g.Comp]
		if !ok {
			continue
		}
		gk, term := x.ghostTerm(st, g, x.storedFields(st, t, key))
		gks := keySortOf(len(g.Key))
		pc := s.declare(s.fresh("iter.at"), "Int")
		pn := s.declare(s.fresh("iter.next"), "Int")
		st.assume(and(eq(pc, is.Pos), eq(pn, "(+ "+is.Pos+" 1)")))
		st.assume(implies(inRange, fmt.Sprintf("(forall ((g!q %s)) (! (= (%s g!q %s) (+ (%s g!q %s) (ite (= g!q %s) %s 0.0))) :pattern ((%s g!q %s))))",
			gks, f, pn, f, pc, gk, term, f, pn)))
	}
	// first element is minimal in index order (single ordered field after the equality prefix is
	// not distinguished here: minimality is stated for the last index field when the match is a prefix)
	x.iterOrderFacts(st, it, is, key)
	io := s.ioFail(st)
	eid := s.freshErrID()
	obj := x.rowObject(st, t, key)
	st.names["iter.lastkey:"+it.Name] = Sc{key, keySortOf(len(t.PK))}
	k(st, Rec{F: []Val{Ptr{Loc: obj, Nil: "false"}, Err{ite(io, eid, "0"), ite(io, eid, "0")}}})
}

// iterOrderFacts: the row at position 0 of a prefix scan is minimal in the first index field after
// the prefix (assumed ORM contract: rows are returned in index order; timestamps compare as
// (seconds, nanos), nil as (0,0)).
func (x *Exec) iterOrderFacts(st *State, it *IterObj, is *IterState, key string) {
	if it.OrderField == nil {
		return
	}
	s := x.s
	t := it.Table
	ksort := keySortOf(len(t.PK))
	hasArr := s.comp(st, t.Name+".has")
	first := eq(is.Pos, "0")
	st.assume(implies(first, fmt.Sprintf("(forall ((k!q %s)) (! (=> (and (select %s k!q) %s) (<= %s %s)) :pattern ((select %s k!q))))",
		ksort, hasArr, it.Match(st, "k!q"), x.idxFieldTerm(st, t, it.OrderField, key), x.idxFieldTerm(st, t, it.OrderField, "k!q"), hasArr)))
}

func (x *Exec) havocIter(st *State, it *IterObj, is *IterState) {
	s := x.s
	p := s.declare(s.fresh("iter.pos"), "Int")
	s.fact("(>= " + p + " (- 1))")
	st.iters[it] = &IterState{Pos: p}
	// iterator protocol invariant (checked as loopN.*.iterbound): not exhausted at the loop head
	st.assume(iterBound(p, it.N))
}

// DeleteBy / DeleteRange: removes exactly the matching rows. The post-state arrays are fresh,
// characterised pointwise (quantified, with patterns): has' k = has k and not match k.
// Ghost sums over the table become fresh arrays constrained by the deleted set's contribution
// (see ghost `rem` in C12); unique index maps are cleared for the deleted rows.
func (x *Exec) ormDeleteRange(st *State, fr *frame, t *Table, m string, args []Val, k func(st *State, v Val)) {
	s := x.s
	s.Assumed[iterTrust] = true
	match, _ := x.matcher(st, t, m, args)
	io := or(s.ioFail(st), x.lastRangeBad)
	eid := s.freshErrID()
	st2 := st.Clone()
	st2.assume(io)
	st.assume(not(io))
	pre := st.Clone()
	ksort := keySortOf(len(t.PK))
	hasOld := s.comp(pre, t.Name+".has")
	s.havocComp(st, t.Name+".has")
	hasNew := s.comp(st, t.Name+".has")
	st.assume(fmt.Sprintf("(forall ((k!q %s)) (! (= (select %s k!q) (and (select %s k!q) (not %s))) :pattern ((select %s k!q))))",
		ksort, hasNew, hasOld, match(pre, "k!q"), hasNew))
	for _, u := range t.Unique {
		// cleared entries: characterised through the rows (left abstract: fresh maps consistent with WF instances)
		s.havocComp(st, t.Name+".by"+u.Name+".has")
		s.havocComp(st, t.Name+".by"+u.Name+".key")
	}
	for _, g := range s.Spec.GhostSums {
		if g.Table != t.Name {
			continue
		}
		// G'[gk] = G[gk] - removed(gk), removed >= 0 given by the ghost function of this delete
		old := s.comp(pre, g.Comp)
		s.havocComp(st, g.Comp)
		nw := s.comp(st, g.Comp)
		rem := q(s.fresh("removed:" + g.Comp))
		gks := keySortOf(len(g.Key))
		s.decls = append(s.decls, fmt.Sprintf("(declare-fun %s (%s) Real)", rem, gks))
		st.assume(fmt.Sprintf("(forall ((g!q %s)) (! (= (select %s g!q) (- (select %s g!q) (%s g!q))) :pattern ((select %s g!q))))", gks, nw, old, rem, nw))
		st.names["removed:"+g.Comp] = Sc{rem, "fun"}
		// the removed contribution equals the total over an iterator with the same range on the unmodified table
		for it := range pre.iters {
			if it.Table == t && it.Writes == pre.wcount[t.Name] && it.MatchSig == match(pre, "k!sig") {
				if f, ok := it.Psum[g.Comp]; ok {
					st.assume(fmt.Sprintf("(forall ((g!q %s)) (! (= (%s g!q) (%s g!q %s)) :pattern ((%s g!q))))", gks, rem, f, it.N, rem))
				}
			}
		}
	}
	st.wcount[t.Name]++
	k(st, Err{"0", "0"})
	k(st2, Err{eid, eid})
}

func iterBound(pos, n string) string {
	return fmt.Sprintf("(or (= %s (- 1)) (< %s %s))", pos, pos, n)
}

// iterOf resolves a contract expression denoting an iterator variable.
func (e *Env) iterOf(x *Sx) (*IterObj, *IterState) {
	v := e.val(x)
	for {
		switch a := v.(type) {
		case Rec:
			if len(a.F) == 0 {
				e.errf("not an iterator: %s", x)
			}
			v = a.F[0]
			continue
		case IterV:
			is := e.cur.iters[a.It]
			if is == nil {
				e.errf("iterator %s is not live here", x)
			}
			return a.It, is
		}
		e.errf("not an iterator: %s (%T)", x, v)
	}
}
