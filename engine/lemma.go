package main

import (
	"fmt"
	"os"
	"os/exec"
	"strings"
	"time"
)

// runLemmaFile runs an SMT-LIB script with (echo "lemma NAME: ...") (check-sat) pairs.
func runLemmaFile(path string, sec int) (names []string, results []string, solver string, ms int64) {
	b, err := os.ReadFile(path)
	if err != nil {
		return nil, []string{err.Error()}, "", 0
	}
	for _, ln := range strings.Split(string(b), "\n") {
		ln = strings.TrimSpace(ln)
		if strings.HasPrefix(ln, "(echo \"lemma ") {
			n := strings.TrimPrefix(ln, "(echo \"lemma ")
			if i := strings.IndexAny(n, ":\""); i >= 0 {
				n = n[:i]
			}
			names = append(names, n)
		}
	}
	try := func(cmd ...string) []string {
		t0 := time.Now()
		out, _ := exec.Command(cmd[0], cmd[1:]...).CombinedOutput()
		ms += time.Since(t0).Milliseconds()
		var rs []string
		for _, ln := range strings.Split(string(out), "\n") {
			ln = strings.TrimSpace(ln)
			if ln == "sat" || ln == "unsat" || ln == "unknown" || strings.Contains(ln, "timeout") {
				rs = append(rs, ln)
			}
		}
		return rs
	}
	allUnsat := func(rs []string) bool {
		if len(rs) != len(names) {
			return false
		}
		for _, r := range rs {
			if r != "unsat" {
				return false
			}
		}
		return true
	}
	results = try("z3-new", fmt.Sprintf("-T:%d", sec), path)
	solver = "z3-new"
	if !allUnsat(results) {
		r2 := try("cvc5", "--incremental", fmt.Sprintf("--tlimit=%d", sec*1000), path)
		if allUnsat(r2) {
			return names, r2, "cvc5", ms
		}
	}
	return
}
