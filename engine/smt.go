package main

import (
	"bytes"
	"context"
	"fmt"
	"math/big"
	"os"
	"os/exec"
	"path/filepath"
	"regexp"
	"strings"
	"sync"
	"time"
)

func parseBig(s string) *big.Int {
	s = strings.TrimSpace(s)
	neg := false
	if strings.HasPrefix(s, "(- ") {
		neg = true
		s = strings.TrimSuffix(s[3:], ")")
	}
	n, ok := new(big.Int).SetString(s, 10)
	if !ok {
		return big.NewInt(0)
	}
	if neg {
		n.Neg(n)
	}
	return n
}

// basePrelude: engine-level vocabulary (always present).
const basePrelude = `
(declare-datatypes ((K2 0)) (((k2 (k2.a Int) (k2.b Int)))))
(declare-datatypes ((K3 0)) (((k3 (k3.a Int) (k3.b Int) (k3.c Int)))))
(declare-datatypes ((K4 0)) (((k4 (k4.a Int) (k4.b Int) (k4.c Int) (k4.d Int)))))
(declare-fun bcode ((Array Int Int) Int Int) Int)
(declare-fun blen (Int) Int)
(declare-fun natval ((Array Int Int) Int Int) Int)
(declare-const bcode.empty Int)
(declare-fun strlen (Int) Int)
(declare-fun strbyte (Int Int) Int)
(declare-fun strcat (Int Int) Int)
(declare-fun substr (Int Int Int) Int)
(declare-fun str.ofrune (Int) Int)
(declare-fun |str<| (Int Int) Bool)
(declare-fun |str<=| (Int Int) Bool)
(declare-fun |str>| (Int Int) Bool)
(declare-fun |str>=| (Int Int) Bool)
(declare-fun err.text (Int) Int)
(declare-fun bit.and (Int Int) Int)
(declare-fun bit.or (Int Int) Int)
(declare-fun bit.xor (Int Int) Int)
(declare-fun bit.shl (Int Int) Int)
(declare-fun bit.shr (Int Int) Int)
(define-fun go.div ((a Int) (b Int)) Int (ite (>= a 0) (ite (> b 0) (div a b) (- (div a (- b)))) (ite (> b 0) (- (div (- a) b)) (div (- a) (- b)))))
(define-fun go.rem ((a Int) (b Int)) Int (- a (* b (go.div a b))))
(define-fun wrap.signed ((x Int) (m Int)) Int (let ((r (mod x m))) (ite (>= (* 2 r) m) (- r m) r)))
(define-fun min2 ((a Int) (b Int)) Int (ite (<= a b) a b))
(define-fun max2 ((a Int) (b Int)) Int (ite (>= a b) a b))
`

// baseSymbols: names declared by basePrelude.
var baseSymbols = func() map[string]bool {
	m := map[string]bool{}
	xs, _ := ParseSx(basePrelude)
	for _, x := range xs {
		if len(x.List) > 1 && x.List[1].IsAtom() {
			m[strings.Trim(x.List[1].Atom, "|")] = true
			m[x.List[1].Atom] = true
		}
		if x.Head() == "declare-datatypes" {
			for _, a := range flattenAtoms(x) {
				m[a] = true
			}
		}
	}
	return m
}()

func flattenAtoms(x *Sx) []string {
	if x.IsAtom() {
		return []string{x.Atom}
	}
	var out []string
	for _, a := range x.List {
		out = append(out, flattenAtoms(a)...)
	}
	return out
}

var decimalLit = regexp.MustCompile(`^[+-]?(\d+\.?\d*|\.\d+)$`)

// literalFacts: ground facts about the string literals that occur in the code / contracts.
func literalFacts(sp *Spec) []string {
	var out []string
	for code, lit := range sp.Strs.list {
		if strings.HasPrefix(lit, "sentinel:") {
			continue
		}
		out = append(out, fmt.Sprintf("(assert (= (strlen %d) %d))", code, len(lit)))
		if len(lit) <= 8 {
			for i := 0; i < len(lit); i++ {
				out = append(out, fmt.Sprintf("(assert (= (strbyte %d %d) %d))", code, i, lit[i]))
			}
		}
		if sp.Symbols["dv"] && lit == "" {
			// NewDecFromString maps the empty string to "0"
			out = append(out, fmt.Sprintf("(assert (and (decvalid %d) (= (dv %d) 0.0) (= (places %d) 0)))", code, code, code))
		}
		if sp.Symbols["dv"] && decimalLit.MatchString(lit) {
			r, ok := new(big.Rat).SetString(lit)
			if ok {
				places := 0
				if i := strings.Index(lit, "."); i >= 0 {
					places = len(lit) - i - 1
				}
				num, den := r.Num().String(), r.Denom().String()
				val := fmt.Sprintf("(/ %s.0 %s.0)", strings.TrimPrefix(num, "-"), den)
				if r.Sign() < 0 {
					val = "(- " + val + ")"
				}
				out = append(out, fmt.Sprintf("(assert (and (decvalid %d) (= (dv %d) %s) (= (places %d) %d)))", code, code, val, code, places))
			}
		}
	}
	return out
}

func (s *Session) Query(o *Obligation) string {
	var b strings.Builder
	b.WriteString("(set-option :produce-models true)\n(set-logic ALL)\n")
	b.WriteString(basePrelude)
	for _, p := range s.Spec.Prelude {
		b.WriteString(p)
		b.WriteByte('\n')
	}
	for _, f := range literalFacts(s.Spec) {
		b.WriteString(f)
		b.WriteByte('\n')
	}
	for _, d := range s.decls {
		b.WriteString(d)
		b.WriteByte('\n')
	}
	for _, f := range s.facts {
		b.WriteString("(assert " + f + ")\n")
	}
	for _, h := range o.Hyps {
		b.WriteString("(assert " + h + ")\n")
	}
	if !o.Cover {
		b.WriteString("(assert (not " + o.Goal + "))\n")
	}
	b.WriteString("(check-sat)\n")
	return b.String()
}

// KeepFiles: keep the SMT files of discharged obligations (debugging only).
var KeepFiles = false

type solverSpec struct {
	name string
	args func(file string, sec int) []string
}

var solvers = []solverSpec{
	{"z3-new", func(f string, sec int) []string { return []string{"z3-new", fmt.Sprintf("-T:%d", sec), f} }},
	{"z3", func(f string, sec int) []string { return []string{"z3", fmt.Sprintf("-T:%d", sec), f} }},
	{"cvc5", func(f string, sec int) []string {
		return []string{"cvc5", fmt.Sprintf("--tlimit=%d", sec*1000), "--strings-exp", f}
	}},
}

func runSolver(sv solverSpec, file string, sec int) (string, string, int64) {
	a := sv.args(file, sec)
	ctx, cancel := context.WithTimeout(context.Background(), time.Duration(sec+5)*time.Second)
	defer cancel()
	t0 := time.Now()
	cmd := exec.CommandContext(ctx, a[0], a[1:]...)
	var out bytes.Buffer
	cmd.Stdout = &out
	cmd.Stderr = &out
	cmd.Run()
	ms := time.Since(t0).Milliseconds()
	txt := out.String()
	first := ""
	for _, ln := range strings.Split(txt, "\n") {
		ln = strings.TrimSpace(ln)
		if ln == "" || strings.HasPrefix(ln, "WARNING") || strings.HasPrefix(ln, "(warning") {
			continue
		}
		first = ln
		break
	}
	switch first {
	case "sat", "unsat", "unknown":
		return first, txt, ms
	}
	if strings.Contains(first, "timeout") || ctx.Err() != nil {
		return "timeout", txt, ms
	}
	return "error", txt, ms
}

// Discharge decides one obligation: z3-new first, then the other two solvers on unknown/timeout.
func (s *Session) Discharge(o *Obligation, dir string, sec int, idx int, cross bool) {
	if o.Static != "" {
		o.Result = "unsat"
		o.Solver = "static"
		if o.Static != "ok" {
			o.Result = "sat"
			o.Output = o.Static
		}
		return
	}
	if o.Cover && o.Group != "" {
		if _, done := s.covered.Load(o.Group); done {
			o.Result, o.Solver = "skipped", "group-covered"
			return
		}
	}
	q := s.Query(o)
	file := filepath.Join(dir, fmt.Sprintf("o%05d.smt2", idx))
	os.WriteFile(file, []byte(q), 0o644)
	if !KeepFiles {
		defer os.Remove(file)
	}
	var total int64
	for i, sv := range solvers {
		sec2 := sec
		if i > 0 {
			sec2 = sec
		}
		r, out, ms := runSolver(sv, file, sec2)
		total += ms
		if r == "sat" || r == "unsat" {
			o.Result, o.Solver, o.Ms, o.Output = r, sv.name, total, out
			if r == "sat" && o.Cover && o.Group != "" {
				s.covered.Store(o.Group, true)
			}
			if r == "sat" && !o.Cover || r == "sat" && false {
				// fetch a model
				os.WriteFile(file, []byte(q+"(get-model)\n"), 0o644)
				_, mout, _ := runSolver(sv, file, sec2)
				o.Model = mout
			}
			if cross && r == "unsat" && !o.Cover {
				// cross-check on a second solver: disagreement is an engine/solver bug
				for j, sv2 := range solvers {
					if j == i {
						continue
					}
					r2, _, _ := runSolver(sv2, file, sec2)
					if r2 == "sat" {
						o.Result = "error"
						o.Output = fmt.Sprintf("solver disagreement: %s says unsat, %s says sat", sv.name, sv2.name)
					}
					if r2 == "sat" || r2 == "unsat" {
						o.Solver += "+" + sv2.name
						break
					}
				}
			}
			return
		}
		o.Result, o.Solver, o.Ms, o.Output = r, sv.name, total, out
		if r == "error" {
			// a malformed query is an engine or contract bug: do not mask it by trying others
			if i == 0 {
				return
			}
		}
	}
}

// DischargeAll runs all obligations in parallel.
func DischargeAll(items []struct {
	S *Session
	O *Obligation
}, dir string, sec int, par int, cross bool) {
	var wg sync.WaitGroup
	ch := make(chan int)
	for w := 0; w < par; w++ {
		wg.Add(1)
		go func() {
			defer wg.Done()
			for i := range ch {
				items[i].S.Discharge(items[i].O, dir, sec, i, cross)
			}
		}()
	}
	for i := range items {
		ch <- i
	}
	close(ch)
	wg.Wait()
}
