package main

import (
	"flag"
	"fmt"
	"os"
	"path/filepath"
	"sort"
	"strings"
	"time"

	"golang.org/x/tools/go/ssa"
)

func main() {
	if len(os.Args) < 2 {
		fmt.Fprintln(os.Stderr, "usage: govc verify|check|tables ...")
		os.Exit(2)
	}
	switch os.Args[1] {
	case "verify":
		cmdVerify(os.Args[2:])
	case "check":
		cmdCheck(os.Args[2:])
	case "tables":
		cmdTables(os.Args[2:])
	default:
		fmt.Fprintln(os.Stderr, "unknown command", os.Args[1])
		os.Exit(2)
	}
}

// Setup loads program + spec + contracts.
func Setup(dir string, patterns []string, specDir string) (*Program, *Spec, error) {
	p, err := LoadProgram(dir, patterns)
	if err != nil {
		return nil, nil, err
	}
	sp := NewSpec()
	// table schemas from every loaded package that defines XTable interfaces
	for _, sp2 := range p.Prog.AllPackages() {
		path := sp2.Pkg.Path()
		if !strings.HasPrefix(path, "github.com/regen-network/regen-ledger/api/") {
			continue
		}
		for _, t := range DeriveTables(sp2.Pkg) {
			sp.AddTable(t)
		}
	}
	if err := sp.LoadSpecDir(specDir); err != nil {
		return nil, nil, err
	}
	// contracts in the repo: comment-only files behind the build tag
	seen := map[string]bool{}
	for path, pk := range p.pkgs {
		if !strings.HasPrefix(path, "github.com/regen-network/regen-ledger") && path != "unit" {
			continue
		}
		for _, f := range pk.GoFiles {
			if filepath.Base(f) == "zz_verif_contracts.go" && !seen[f] {
				seen[f] = true
				if err := sp.LoadContractFile(f, path); err != nil {
					return nil, nil, err
				}
			}
		}
	}
	return p, sp, nil
}

func cmdTables(args []string) {
	fs := flag.NewFlagSet("tables", flag.ExitOnError)
	dir := fs.String("dir", "/repo/x/ecocredit", "module directory")
	pk := fs.String("pkgs", "./base/keeper", "package patterns (comma separated)")
	spec := fs.String("spec", "/verif/spec", "spec directory")
	fs.Parse(args)
	_, sp, err := Setup(*dir, strings.Split(*pk, ","), *spec)
	if err != nil {
		fmt.Fprintln(os.Stderr, err)
		os.Exit(2)
	}
	var names []string
	for n := range sp.Tables {
		names = append(names, n)
	}
	sort.Strings(names)
	for _, n := range names {
		t := sp.Tables[n]
		var pk []string
		for _, f := range t.PK {
			pk = append(pk, f.Go)
		}
		fmt.Printf("%s pk=(%s) autoinc=%v singleton=%v\n", n, strings.Join(pk, ","), t.AutoInc, t.Singleton)
		for _, u := range t.Unique {
			var fs []string
			for _, f := range u.Fields {
				fs = append(fs, f.Go)
			}
			fmt.Printf("   unique %s (%s)\n", u.Name, strings.Join(fs, ","))
		}
		for _, c := range t.Comps() {
			fmt.Printf("   %s : %s\n", c.Name, c.Sort())
		}
	}
}

func cmdVerify(args []string) {
	fs := flag.NewFlagSet("verify", flag.ExitOnError)
	dir := fs.String("dir", "/repo/x/ecocredit", "module directory")
	pk := fs.String("pkgs", "./base/keeper", "package patterns (comma separated)")
	spec := fs.String("spec", "/verif/spec", "spec directory")
	fnames := fs.String("func", "", "functions (comma separated ssa names; empty = all with non-assumed contract in loaded repo packages)")
	sec := fs.Int("timeout", 10, "seconds per obligation")
	keep := fs.String("keep", "", "directory to keep SMT files in")
	verbose := fs.Bool("v", false, "verbose")
	expect := fs.Bool("expect", false, "unit corpus mode: compare every verdict with the `note expect=pass|left|fail:<obligation prefix>` of the contract; exit 1 on any mismatch")
	fs.Parse(args)
	t0 := time.Now()
	mismatch := 0
	p, sp, err := Setup(*dir, strings.Split(*pk, ","), *spec)
	if err != nil {
		fmt.Fprintln(os.Stderr, err)
		os.Exit(2)
	}
	fmt.Fprintf(os.Stderr, "loaded in %.1fs\n", time.Since(t0).Seconds())
	var fns []*ssa.Function
	if *fnames != "" {
		for _, n := range strings.Split(*fnames, ",") {
			f := p.Func(n)
			if f == nil {
				fmt.Fprintln(os.Stderr, "no such function:", n)
				os.Exit(2)
			}
			fns = append(fns, f)
		}
	} else {
		var names []string
		for n, c := range sp.Contracts {
			if !c.Assumed && !c.Inline {
				names = append(names, n)
			}
		}
		sort.Strings(names)
		for _, n := range names {
			if f := p.Func(n); f != nil {
				fns = append(fns, f)
			} else {
				fmt.Printf("MISSING-TARGET %s\n", n)
			}
		}
	}
	scratch := *keep
	KeepFiles = *keep != ""
	if scratch == "" {
		scratch, _ = os.MkdirTemp("/var/tmp", "govc.")
		defer os.RemoveAll(scratch)
	} else {
		os.MkdirAll(scratch, 0o755)
	}
	bad := 0
	for _, fn := range fns {
		con := sp.Contracts[fn.String()]
		if con == nil {
			fmt.Printf("NO-CONTRACT %s\n", fn)
			continue
		}
		r := VerifyFunction(p, sp, fn, con)
		var items []struct {
			S *Session
			O *Obligation
		}
		for _, o := range r.Obls {
			items = append(items, struct {
				S *Session
				O *Obligation
			}{r.Sess, o})
		}
		d := filepath.Join(scratch, sanitize(fn.String()))
		os.MkdirAll(d, 0o755)
		DischargeAll(items, d, *sec, 16, false)
		fmt.Printf("== %s: %d obligations, %d paths\n", fn, len(r.Obls), r.Paths)
		if os.Getenv("GOVC_TRACES") != "" {
			hist := map[string]int{}
			for _, o := range r.Obls {
				if o.Kind == "frame" {
					parts := strings.Fields(o.Trace)
					k := ""
					for _, p := range parts {
						if strings.HasPrefix(p, fn.Name()+":") {
							k = p
						}
					}
					hist[k]++
				}
			}
			var ks []string
			for k := range hist {
				ks = append(ks, k)
			}
			sort.Strings(ks)
			for _, k := range ks {
				fmt.Printf("   returns at %s: %d\n", k, hist[k])
			}
		}
		if r.Subset != "" {
			fmt.Printf("   LEFT-SUBSET: %s\n", r.Subset)
			bad++
		}
		coverOK := map[string]bool{}
		for _, o := range r.Obls {
			if o.Cover {
				base := strings.SplitN(o.Name, "#", 2)[0]
				if o.Result == "sat" || o.Result == "skipped" {
					coverOK[base] = true
				} else if _, ok := coverOK[base]; !ok {
					coverOK[base] = false
				}
			}
		}
		shown := map[string]bool{}
		for i, o := range r.Obls {
			status := "ok"
			if o.Cover {
				if o.Result != "sat" {
					status = "cover-" + o.Result
				}
			} else if o.Result != "unsat" {
				status = "FAIL(" + o.Result + ")"
				bad++
			}
			base := strings.SplitN(o.Name, "#", 2)[0]
			if status != "ok" && !o.Cover && !*verbose {
				if shown[base] {
					continue
				}
				shown[base] = true
			}
			if *verbose || (status != "ok" && !o.Cover) {
				fmt.Printf("   [%s] %s %s %dms  {%s}\n", status, o.Name, o.Solver, o.Ms, o.Src)
				if status != "ok" && !o.Cover {
					fmt.Printf("      file: %s/o%05d.smt2\n      trace: %s\n", d, i, o.Trace)
					if o.Result == "error" {
						fmt.Printf("      output: %s\n", firstLines(o.Output, 5))
					}
				}
			}
		}
		for c, ok := range coverOK {
			if !ok {
				fmt.Printf("   VACUOUS: %s unsatisfiable\n", c)
				bad++
			}
		}
		if len(r.Inlined) > 0 && *verbose {
			fmt.Printf("   inlined: %s\n", strings.Join(r.Inlined, ", "))
		}
		if *expect {
			var failed []string
			for _, o := range r.Obls {
				if !o.Cover && o.Result != "unsat" {
					failed = append(failed, strings.SplitN(o.Name, "#", 2)[0])
				}
			}
			for c, ok := range coverOK {
				if !ok {
					failed = append(failed, "vacuous:"+c)
				}
			}
			sort.Strings(failed)
			verdict := "pass"
			if r.Subset != "" {
				verdict = "left"
			} else if len(failed) > 0 {
				verdict = "fail:" + strings.Join(failed, ",")
			}
			want := ""
			for _, f := range strings.Fields(con.Note) {
				if strings.HasPrefix(f, "expect=") {
					want = f[len("expect="):]
				}
			}
			ok := want == verdict
			if strings.HasPrefix(want, "fail:") && strings.HasPrefix(verdict, "fail:") {
				// every failing obligation must be an expected one, and there must be one
				ok = true
				for _, f := range failed {
					hit := false
					for _, w := range strings.Split(want[len("fail:"):], "|") {
						if strings.HasPrefix(f, w) {
							hit = true
						}
					}
					if !hit {
						ok = false
					}
				}
			}
			if ok {
				fmt.Printf("   UNIT-OK %s: %s\n", fn, verdict)
			} else {
				fmt.Printf("   UNIT-MISMATCH %s: expected %s, got %s\n", fn, want, verdict)
				mismatch++
			}
		}
	}
	if *expect {
		fmt.Fprintf(os.Stderr, "unit corpus: %d functions, %d mismatches\n", len(fns), mismatch)
		if mismatch > 0 || len(fns) == 0 {
			os.Exit(1)
		}
		os.Exit(0)
	}
	fmt.Fprintf(os.Stderr, "done in %.1fs, %d problems\n", time.Since(t0).Seconds(), bad)
	if bad > 0 {
		os.Exit(1)
	}
}

func firstLines(s string, n int) string {
	ls := strings.Split(s, "\n")
	if len(ls) > n {
		ls = ls[:n]
	}
	return strings.Join(ls, " | ")
}

func sanitize(s string) string {
	r := strings.NewReplacer("/", "_", "(", "", ")", "", "*", "p", " ", "_")
	s = r.Replace(s)
	if len(s) > 80 {
		s = s[len(s)-80:]
	}
	return s
}

