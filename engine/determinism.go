package main

import (
	"fmt"
	"go/types"
	"sort"
	"strings"

	"golang.org/x/tools/go/ssa"
)

// C10 (DESIGN.md): effect/frame contract "deterministic; assigns store, ctx" checked statically over
// the SSA call graph of the real packages: every consensus entry point and everything it reaches
// inside the repository must not (a) write package-level variables or through its receiver,
// (b) call a nondeterministic source, (c) start goroutines / use channels / select,
// (d) range over a Go map unless the site is listed with the reason why the order cannot leak.

type DetCfg struct {
	Entry       []string          `json:"entry"`        // extra entry functions (ssa names)
	MsgMethods  []string          `json:"msg_methods"`  // methods of every named type that has all of them (ValidateBasic, GetSigners)
	AllowCalls  map[string]string `json:"allow_calls"`  // "<func short> -> <callee>" : reason
	MapRanges   map[string]string `json:"map_ranges"`   // function short name : reason
	SkipPkgs    []string          `json:"skip_pkgs"`    // package path substrings that are not consensus code
}

var nondetCallees = []string{"time.Now", "time.Since", "time.Until", "math/rand.", "crypto/rand.", "os.Getenv", "os.Hostname", "os.Getpid", "runtime.NumGoroutine", "runtime.GC", "runtime.Stack", "runtime.Caller"}

type detFinding struct{ Func, What string }

// deepRoot follows an address or value back through field selections, element selections, loads and
// slicing to where it comes from; derefs counts the pointer indirections passed on the way.
func deepRoot(v ssa.Value) (root ssa.Value, derefs int) {
	for i := 0; i < 64; i++ {
		switch a := v.(type) {
		case *ssa.FieldAddr:
			v = a.X
		case *ssa.IndexAddr:
			v = a.X
		case *ssa.Field:
			v = a.X
		case *ssa.Index:
			v = a.X
		case *ssa.Slice:
			v = a.X
		case *ssa.ChangeType:
			v = a.X
		case *ssa.UnOp:
			if a.Op.String() != "*" {
				return v, derefs
			}
			derefs++
			v = a.X
		default:
			return v, derefs
		}
	}
	return v, derefs
}

// processMemory: does the value live in memory that outlives the call - a package-level variable, or
// something reached from the receiver through at least one pointer, map or slice (the receiver
// itself, when passed by value, is a copy)? Returns a description or "".
func processMemory(fn *ssa.Function, recv *ssa.Parameter, v ssa.Value, isAddr bool) string {
	root, derefs := deepRoot(v)
	if g, ok := root.(*ssa.Global); ok {
		return "package-level variable " + g.String()
	}
	if recv == nil {
		return ""
	}
	fromRecv := root == ssa.Value(recv)
	if al, ok := root.(*ssa.Alloc); ok && !fromRecv {
		// value receivers are spilled to a local: `t0 = local T (s); *t0 = s`
		for _, ref := range *al.Referrers() {
			if st, ok := ref.(*ssa.Store); ok && st.Addr == ssa.Value(al) && st.Val == ssa.Value(recv) {
				fromRecv = true
				derefs-- // the load from the spill slot is not an indirection of the receiver
			}
		}
	}
	if !fromRecv {
		return ""
	}
	_, recvIsPtr := recv.Type().Underlying().(*types.Pointer)
	if recvIsPtr || derefs >= 1 || !isAddr {
		return "memory reached from its receiver"
	}
	return ""
}

func repoFunc(fn *ssa.Function) bool {
	return fn != nil && fn.Pkg != nil && strings.HasPrefix(fn.Pkg.Pkg.Path(), "github.com/regen-network/regen-ledger") || fn != nil && fn.Parent() != nil && repoFunc(fn.Parent())
}

func determinismCheck(p *Program, cfg *PropCfg, steps map[string]*ssa.Function) (checked []string, findings []detFinding, listed map[string]string) {
	dc := cfg.Det
	listed = map[string]string{}
	entries := map[string]*ssa.Function{}
	for n, f := range steps {
		entries[n] = f
	}
	for _, e := range dc.Entry {
		if f := p.Func(e); f != nil {
			entries[e] = f
		}
	}
	// Msg types: named types of loaded repo packages with all the listed methods
	if len(dc.MsgMethods) > 0 {
		for _, sp := range p.Prog.AllPackages() {
			if !strings.HasPrefix(sp.Pkg.Path(), "github.com/regen-network/regen-ledger/x/") {
				continue
			}
			for _, m := range sp.Members {
				tn, ok := m.(*ssa.Type)
				if !ok {
					continue
				}
				named, ok := tn.Type().(*types.Named)
				if !ok {
					continue
				}
				var fs []*ssa.Function
				if _, isIface := named.Underlying().(*types.Interface); isIface {
					continue
				}
				mset := types.NewMethodSet(types.NewPointer(named))
				for _, mn := range dc.MsgMethods {
					sel := mset.Lookup(sp.Pkg, mn)
					if sel == nil {
						continue
					}
					if f := p.Prog.MethodValue(sel); f != nil {
						fs = append(fs, f)
					}
				}
				if len(fs) == len(dc.MsgMethods) {
					for _, f := range fs {
						entries[f.String()] = f
					}
				}
			}
		}
	}
	skip := func(fn *ssa.Function) bool {
		if fn.Pkg == nil {
			return false
		}
		for _, s := range dc.SkipPkgs {
			if strings.Contains(fn.Pkg.Pkg.Path(), s) {
				return true
			}
		}
		return false
	}
	seen := map[*ssa.Function]bool{}
	var work []*ssa.Function
	for _, f := range entries {
		work = append(work, f)
	}
	for len(work) > 0 {
		fn := work[len(work)-1]
		work = work[:len(work)-1]
		if fn == nil || seen[fn] || len(fn.Blocks) == 0 {
			continue
		}
		if !(repoFunc(fn) || fn.Synthetic != "") || skip(fn) {
			continue
		}
		seen[fn] = true
		short := shortName(fn.String())
		checked = append(checked, short)
		var recv *ssa.Parameter
		if fn.Signature.Recv() != nil && len(fn.Params) > 0 {
			recv = fn.Params[0]
		}
		for _, b := range fn.Blocks {
			for _, ins := range b.Instrs {
				switch in := ins.(type) {
				case *ssa.Go:
					findings = append(findings, detFinding{short, "starts a goroutine"})
				case *ssa.Select:
					findings = append(findings, detFinding{short, "select statement"})
				case *ssa.Send:
					findings = append(findings, detFinding{short, "channel send"})
				case *ssa.Store:
					root := rootOf(in.Addr)
					if g, ok := root.(*ssa.Global); ok && fn.Name() != "init" {
						findings = append(findings, detFinding{short, "writes package-level variable " + g.String()})
					}
					if recv != nil && root == ssa.Value(recv) {
						if _, isPtr := recv.Type().Underlying().(*types.Pointer); isPtr {
							findings = append(findings, detFinding{short, "writes through its receiver (state in process memory)"})
						}
					} else if _, isG := root.(*ssa.Global); !isG && fn.Name() != "init" {
						if where := processMemory(fn, recv, in.Addr, true); where != "" {
							findings = append(findings, detFinding{short, "writes " + where + " (state in process memory)"})
						}
					}
				case *ssa.MapUpdate:
					if where := processMemory(fn, recv, in.Map, false); where != "" && fn.Name() != "init" {
						findings = append(findings, detFinding{short, "updates a map in " + where + " (state in process memory)"})
					}
				case *ssa.Range:
					if _, isMap := in.X.Type().Underlying().(*types.Map); isMap {
						if why, ok := dc.MapRanges[short]; ok {
							listed[short+" ranges over a map"] = why
						} else {
							findings = append(findings, detFinding{short, "ranges over a Go map (iteration order is random) and is not listed with a reason"})
						}
					}
				case *ssa.Convert:
					if b, ok := in.X.Type().Underlying().(*types.Basic); ok && b.Kind() == types.UnsafePointer {
						findings = append(findings, detFinding{short, "converts unsafe.Pointer to an integer"})
					}
				case *ssa.MakeClosure:
					work = append(work, in.Fn.(*ssa.Function))
				}
				ci, ok := ins.(ssa.CallInstruction)
				if !ok {
					continue
				}
				cc := ci.Common()
				if cc.IsInvoke() {
					ifn := ifaceName(cc.Value.Type())
					if strings.Contains(ifn, "regen-network/regen-ledger") {
						if it, _ := cc.Value.Type().Underlying().(*types.Interface); it != nil {
							for _, cand := range p.byName {
								if cand.Signature.Recv() == nil || cand.Name() != cc.Method.Name() || !repoFunc(cand) {
									continue
								}
								if types.Implements(cand.Signature.Recv().Type(), it) {
									work = append(work, cand)
								}
							}
						}
					}
					continue
				}
				callee := cc.StaticCallee()
				if callee == nil {
					continue
				}
				cn := callee.String()
				if callee.Pkg != nil && (callee.Pkg.Pkg.Path() == "sync" || callee.Pkg.Pkg.Path() == "sync/atomic") {
					// shared mutable memory (sync.Map, mutex-guarded caches, atomics): state outside the store
					key := short + " -> " + cn
					if why, ok := dc.AllowCalls[key]; ok {
						listed[key] = why
					} else {
						findings = append(findings, detFinding{short, "uses " + cn + " (shared process memory: results may depend on what the process did before)"})
					}
				}
				for _, nd := range nondetCallees {
					if cn == nd || strings.HasSuffix(nd, ".") && strings.HasPrefix(cn, nd) {
						key := short + " -> " + cn
						if why, ok := dc.AllowCalls[key]; ok {
							listed[key] = why
						} else {
							findings = append(findings, detFinding{short, "calls nondeterministic source " + cn})
						}
					}
				}
				work = append(work, callee)
			}
		}
	}
	sort.Strings(checked)
	return
}

func fmtDetFinding(f detFinding) string { return fmt.Sprintf("%s: %s", f.Func, f.What) }
