package main

import (
	"fmt"
	"strings"
)

// Sx is an s-expression: either an atom or a list.
type Sx struct {
	Atom string
	List []*Sx
	IsL  bool
}

func A(s string) *Sx        { return &Sx{Atom: s} }
func L(xs ...*Sx) *Sx       { return &Sx{List: xs, IsL: true} }
func (s *Sx) IsAtom() bool  { return !s.IsL }
func (s *Sx) Head() string {
	if s.IsL && len(s.List) > 0 && s.List[0].IsAtom() {
		return s.List[0].Atom
	}
	return ""
}

func (s *Sx) String() string {
	var b strings.Builder
	s.write(&b)
	return b.String()
}

func (s *Sx) write(b *strings.Builder) {
	if !s.IsL {
		b.WriteString(s.Atom)
		return
	}
	b.WriteByte('(')
	for i, x := range s.List {
		if i > 0 {
			b.WriteByte(' ')
		}
		x.write(b)
	}
	b.WriteByte(')')
}

// ParseSx parses all s-expressions in src. `;` starts a comment to end of line.
// Atoms may contain any non-space, non-paren characters; |...| and "..." are kept as single atoms.
func ParseSx(src string) ([]*Sx, error) {
	p := &sxParser{s: src}
	var out []*Sx
	for {
		p.skip()
		if p.i >= len(p.s) {
			return out, nil
		}
		x, err := p.parse()
		if err != nil {
			return nil, err
		}
		out = append(out, x)
	}
}

func ParseOne(src string) (*Sx, error) {
	xs, err := ParseSx(src)
	if err != nil {
		return nil, err
	}
	if len(xs) != 1 {
		return nil, fmt.Errorf("expected exactly one s-expression, got %d in %q", len(xs), src)
	}
	return xs[0], nil
}

type sxParser struct {
	s string
	i int
}

func (p *sxParser) skip() {
	for p.i < len(p.s) {
		c := p.s[p.i]
		if c == ';' {
			for p.i < len(p.s) && p.s[p.i] != '\n' {
				p.i++
			}
		} else if c == ' ' || c == '\t' || c == '\n' || c == '\r' {
			p.i++
		} else {
			return
		}
	}
}

func (p *sxParser) parse() (*Sx, error) {
	p.skip()
	if p.i >= len(p.s) {
		return nil, fmt.Errorf("unexpected end of input")
	}
	c := p.s[p.i]
	if c == '(' {
		p.i++
		l := &Sx{IsL: true}
		for {
			p.skip()
			if p.i >= len(p.s) {
				return nil, fmt.Errorf("unbalanced parenthesis")
			}
			if p.s[p.i] == ')' {
				p.i++
				return l, nil
			}
			x, err := p.parse()
			if err != nil {
				return nil, err
			}
			l.List = append(l.List, x)
		}
	}
	if c == ')' {
		return nil, fmt.Errorf("unexpected ) at %d", p.i)
	}
	start := p.i
	if c == '"' {
		p.i++
		for p.i < len(p.s) && p.s[p.i] != '"' {
			if p.s[p.i] == '\\' {
				p.i++
			}
			p.i++
		}
		p.i++
		return A(p.s[start:p.i]), nil
	}
	depth := 0
	for p.i < len(p.s) {
		c := p.s[p.i]
		if c == '[' {
			depth++
		} else if c == ']' {
			depth--
		}
		if depth == 0 && (c == ' ' || c == '\t' || c == '\n' || c == '\r' || c == '(' || c == ')' || c == ';') {
			break
		}
		p.i++
	}
	return A(p.s[start:p.i]), nil
}

// Subst replaces atoms according to m (used for macro expansion and binder instantiation).
func (s *Sx) Subst(m map[string]*Sx) *Sx {
	if !s.IsL {
		if r, ok := m[s.Atom]; ok {
			return r
		}
		if strings.ContainsAny(s.Atom, "[.") {
			// Go path: substitute the root and bracketed index atoms
			return A(substPath(s.Atom, m))
		}
		return s
	}
	out := &Sx{IsL: true, List: make([]*Sx, len(s.List))}
	for i, x := range s.List {
		out.List[i] = x.Subst(m)
	}
	return out
}

func parenBalance(s string) int {
	n := 0
	inStr := false
	for i := 0; i < len(s); i++ {
		c := s[i]
		if inStr {
			if c == '\\' {
				i++
			} else if c == '"' {
				inStr = false
			}
			continue
		}
		switch c {
		case '"':
			inStr = true
		case ';':
			for i < len(s) && s[i] != '\n' {
				i++
			}
		case '(':
			n++
		case ')':
			n--
		}
	}
	return n
}

// substPath substitutes atoms inside a Go path `root(.f|[idx])*`: the root and the index
// expressions, when the replacement is itself an atom.
func substPath(p string, m map[string]*Sx) string {
	var b strings.Builder
	i := 0
	// root
	j := 0
	for j < len(p) && p[j] != '.' && p[j] != '[' {
		j++
	}
	root := p[:j]
	if r, ok := m[root]; ok && r.IsAtom() {
		root = r.Atom
	}
	b.WriteString(root)
	i = j
	for i < len(p) {
		if p[i] == '[' {
			depth := 0
			st := i + 1
			for ; i < len(p); i++ {
				if p[i] == '[' {
					depth++
				} else if p[i] == ']' {
					depth--
					if depth == 0 {
						break
					}
				}
			}
			idx := p[st:i]
			if r, ok := m[idx]; ok && r.IsAtom() {
				idx = r.Atom
			} else if strings.ContainsAny(idx, "[.") {
				idx = substPath(idx, m)
			}
			b.WriteString("[" + idx + "]")
			i++
		} else {
			b.WriteByte(p[i])
			i++
		}
	}
	return b.String()
}
