package main

import (
	"go/token"
	"fmt"
	"sync"
	"go/constant"
	"go/types"
	"sort"
	"strings"

	"golang.org/x/tools/go/ssa"
)

// SubsetError is raised (panic) when the code under verification uses a construct outside the
// supported subset. The function is then reported as left-verifiable-subset:<construct>.
type SubsetError struct{ Msg string }

func (e SubsetError) Error() string { return e.Msg }

func subsetf(format string, a ...interface{}) {
	panic(SubsetError{fmt.Sprintf(format, a...)})
}

// AbstractType describes a Go named type that is modelled as one SMT scalar.
type AbstractType struct {
	Name   string
	Sort   string
	Zero   string // SMT term of the Go zero value ("" = none known)
	Except string // package path in which the type is NOT abstract
	Fact   string // optional fact template about every value of the type; "$" is the value
}

// Session is one verification run over one function (shared by all its paths).
type Session struct {
	Prog     *Program
	Spec     *Spec
	PkgPath  string // package of the function under verification (for abstract-type exceptions)
	decls    []string
	declared map[string]string
	facts    []string
	factSet  map[string]bool
	strs     *StrTable
	n        int
	globals  map[*ssa.Global]*Loc
	Assumed  map[string]bool // names of assumed contracts / built-ins used (trusted base)
	covered  sync.Map        // cover groups already shown reachable
	Inlined  map[string]bool
	varObjs  map[string]*types.Var // key of State.names -> the source variable (scope-aware resolution of names in clauses)
	BlenFacts bool // the contract under verification talks about blen: give every content code its length
	entryParams map[string]bool // parameter names of the function under verification (heap frame: objects reachable from them exist before the call)
}

type StrTable struct {
	codes map[string]int
	list  []string
}

func NewStrTable() *StrTable {
	t := &StrTable{codes: map[string]int{}}
	t.Code("")
	return t
}

func (t *StrTable) Code(s string) int {
	if c, ok := t.codes[s]; ok {
		return c
	}
	c := len(t.list)
	t.codes[s] = c
	t.list = append(t.list, s)
	return c
}

func NewSession(p *Program, spec *Spec, pkg string) *Session {
	return &Session{Prog: p, Spec: spec, PkgPath: pkg, declared: map[string]string{}, factSet: map[string]bool{},
		strs: spec.Strs, globals: map[*ssa.Global]*Loc{}, Assumed: map[string]bool{}, Inlined: map[string]bool{}, varObjs: map[string]*types.Var{}}
}

func (s *Session) declare(name, sort string) string {
	qn := q(name)
	if old, ok := s.declared[qn]; ok {
		if old != sort {
			panic(fmt.Sprintf("symbol %s redeclared with sort %s (was %s)", qn, sort, old))
		}
		return qn
	}
	s.declared[qn] = sort
	s.decls = append(s.decls, fmt.Sprintf("(declare-fun %s () %s)", qn, sort))
	return qn
}

func (s *Session) fact(f string) {
	if f == "true" || s.factSet[f] {
		return
	}
	s.factSet[f] = true
	s.facts = append(s.facts, f)
}

func (s *Session) fresh(hint string) string {
	s.n++
	return fmt.Sprintf("%s@%d", hint, s.n)
}

func (s *Session) strCode(lit string) string {
	return fmt.Sprintf("%d", s.strs.Code(lit))
}

func (s *Session) abstractOf(t types.Type) *AbstractType {
	n, ok := t.(*types.Named)
	if !ok {
		if a, ok2 := t.(*types.Alias); ok2 {
			return s.abstractOf(types.Unalias(a))
		}
		return nil
	}
	if n.Obj().Pkg() == nil {
		return nil
	}
	key := n.Obj().Pkg().Path() + "." + n.Obj().Name()
	a := s.Spec.Abstract[key]
	if a == nil || a.Except == s.PkgPath {
		return nil
	}
	return a
}

// symVal returns the symbolic value of type t named `name`. It is a deterministic function of
// (name, t): calling it twice gives the same terms.
func (s *Session) symVal(name string, t types.Type) Val {
	if a := s.abstractOf(t); a != nil {
		c := s.declare(name, a.Sort)
		if a.Fact != "" {
			s.fact(strings.ReplaceAll(a.Fact, "$", c))
		}
		return Sc{c, a.Sort}
	}
	switch u := t.Underlying().(type) {
	case *types.Basic:
		switch {
		case u.Info()&types.IsBoolean != 0:
			return Sc{s.declare(name, "Bool"), "Bool"}
		case u.Info()&types.IsInteger != 0:
			c := s.declare(name, "Int")
			if lo, hi, ok := intRange(u); ok {
				s.fact(fmt.Sprintf("(and (<= %s %s) (<= %s %s))", lo, c, c, hi))
			}
			return Sc{c, "Int"}
		case u.Info()&types.IsString != 0:
			return Sc{s.declare(name, "Int"), "Int"}
		case u.Kind() == types.UnsafePointer:
			return Opaque{"unsafe.Pointer"}
		default:
			return Opaque{"basic type " + u.String()}
		}
	case *types.Pointer:
		nilc := s.declare(name+"?nil", "Bool")
		return Ptr{Loc: &Loc{Name: name + "->", Typ: u.Elem(), Lazy: true}, Nil: nilc}
	case *types.Struct:
		r := Rec{F: make([]Val, u.NumFields())}
		for i := 0; i < u.NumFields(); i++ {
			r.F[i] = s.symVal(name+"."+u.Field(i).Name(), u.Field(i).Type())
		}
		return r
	case *types.Tuple:
		r := Rec{F: make([]Val, u.Len())}
		for i := 0; i < u.Len(); i++ {
			r.F[i] = s.symVal(fmt.Sprintf("%s#%d", name, i), u.At(i).Type())
		}
		return r
	case *types.Slice:
		ln := s.declare(name+"?len", "Int")
		s.fact(fmt.Sprintf("(>= %s 0)", ln))
		return Slice{Arr: &Arr{Name: name + "[]", Elem: u.Elem()}, Off: "0", Len: ln, Cap: ln}
	case *types.Array:
		if u.Len() <= 8 {
			r := Rec{F: make([]Val, u.Len())}
			for i := int64(0); i < u.Len(); i++ {
				r.F[i] = s.symVal(fmt.Sprintf("%s[%d]", name, i), u.Elem())
			}
			return r
		}
		return ArrayV{Arr: &Arr{Name: name + "[]", Elem: u.Elem()}, N: u.Len()}
	case *types.Interface:
		if isErrorType(t) {
			id := s.declare(name+"?id", "Int")
			root := s.declare(name+"?root", "Int")
			s.fact(fmt.Sprintf("(and (>= %s 0) (>= %s 0) (= (= %s 0) (= %s 0)))", id, root, id, root))
			return Err{id, root}
		}
		return Iface{Tok: s.declare(name+"?tok", "Int")}
	case *types.Signature:
		return Fn{Tok: s.declare(name+"?fn", "Int")}
	case *types.Map:
		return Opaque{"map"}
	case *types.Chan:
		return Opaque{"chan"}
	}
	return Opaque{"type " + t.String()}
}

// zeroVal returns the Go zero value of type t.
func (s *Session) zeroVal(t types.Type) Val {
	if a := s.abstractOf(t); a != nil {
		if a.Zero == "" {
			return Opaque{"zero value of abstract type " + a.Name}
		}
		return Sc{a.Zero, a.Sort}
	}
	switch u := t.Underlying().(type) {
	case *types.Basic:
		switch {
		case u.Info()&types.IsBoolean != 0:
			return scBool("false")
		case u.Info()&types.IsInteger != 0:
			return scInt("0")
		case u.Info()&types.IsString != 0:
			return scInt("0")
		default:
			return Opaque{"zero of " + u.String()}
		}
	case *types.Pointer:
		return Ptr{Nil: "true"}
	case *types.Struct:
		r := Rec{F: make([]Val, u.NumFields())}
		for i := 0; i < u.NumFields(); i++ {
			r.F[i] = s.zeroVal(u.Field(i).Type())
		}
		return r
	case *types.Slice:
		return Slice{Arr: nil, Off: "0", Len: "0", Cap: "0"}
	case *types.Array:
		if u.Len() <= 8 {
			r := Rec{F: make([]Val, u.Len())}
			for i := int64(0); i < u.Len(); i++ {
				r.F[i] = s.zeroVal(u.Elem())
			}
			return r
		}
		return ArrayV{Arr: &Arr{Name: s.fresh("array"), Elem: u.Elem(), Zero: true}, N: u.Len()}
	case *types.Interface:
		if isErrorType(t) {
			return Err{"0", "0"}
		}
		return Iface{Tok: "0"}
	case *types.Signature:
		return Fn{Tok: "0"}
	case *types.Map:
		return Opaque{"nil map"}
	}
	return Opaque{"zero of " + t.String()}
}

// constVal converts an SSA constant.
func (s *Session) constVal(c *ssa.Const) Val {
	if c.Value == nil {
		return s.zeroVal(c.Type())
	}
	switch u := c.Type().Underlying().(type) {
	case *types.Basic:
		switch {
		case u.Info()&types.IsBoolean != 0:
			if constant.BoolVal(c.Value) {
				return scBool("true")
			}
			return scBool("false")
		case u.Info()&types.IsInteger != 0:
			v := constant.ToInt(c.Value)
			str := v.ExactString()
			if strings.HasPrefix(str, "-") {
				return scInt("(- " + str[1:] + ")")
			}
			return scInt(str)
		case u.Info()&types.IsString != 0:
			return scInt(s.strCode(constant.StringVal(c.Value)))
		}
	}
	return Opaque{"constant of type " + c.Type().String()}
}

// leafSorts flattens a type to the sorts of its SMT leaves; ok=false if it does not flatten.
func (s *Session) leafSorts(t types.Type) ([]string, bool) {
	if a := s.abstractOf(t); a != nil {
		return []string{a.Sort}, true
	}
	switch u := t.Underlying().(type) {
	case *types.Basic:
		switch {
		case u.Info()&types.IsBoolean != 0:
			return []string{"Bool"}, true
		case u.Info()&types.IsInteger != 0, u.Info()&types.IsString != 0:
			return []string{"Int"}, true
		}
		return nil, false
	case *types.Struct:
		var out []string
		for i := 0; i < u.NumFields(); i++ {
			l, ok := s.leafSorts(u.Field(i).Type())
			if !ok {
				return nil, false
			}
			out = append(out, l...)
		}
		return out, true
	case *types.Interface:
		if isErrorType(t) {
			return []string{"Int", "Int"}, true
		}
	}
	return nil, false
}

func (s *Session) flatten(v Val, out *[]string) {
	switch x := v.(type) {
	case Sc:
		*out = append(*out, x.T)
	case Rec:
		for _, f := range x.F {
			s.flatten(f, out)
		}
	case Err:
		*out = append(*out, x.ID, x.Root)
	default:
		subsetf("cannot flatten value %T into SMT leaves", v)
	}
}

func (s *Session) unflatten(t types.Type, leaves []string, i *int) Val {
	if a := s.abstractOf(t); a != nil {
		v := Sc{leaves[*i], a.Sort}
		*i++
		return v
	}
	switch u := t.Underlying().(type) {
	case *types.Basic:
		sort := "Int"
		if u.Info()&types.IsBoolean != 0 {
			sort = "Bool"
		}
		v := Sc{leaves[*i], sort}
		*i++
		return v
	case *types.Struct:
		r := Rec{F: make([]Val, u.NumFields())}
		for k := 0; k < u.NumFields(); k++ {
			r.F[k] = s.unflatten(u.Field(k).Type(), leaves, i)
		}
		return r
	case *types.Interface:
		v := Err{leaves[*i], leaves[*i+1]}
		*i += 2
		return v
	}
	panic("unflatten: " + t.String())
}

// ---------------------------------------------------------------------------------------------
// Per-path state
// ---------------------------------------------------------------------------------------------

type State struct {
	regs   map[ssa.Value]Val
	mem    map[*Loc]Val
	arrs   map[*Arr]*ArrContent
	comps  map[string]string // state component -> current SMT term
	pc     []string
	iters  map[*IterObj]*IterState
	trace  []string
	writes map[string]bool // components written on this path (for frame.modifies)
	names  map[string]Val  // "<func>.<var>#<declpos>" -> latest value seen in a DebugRef (source-level names for invariants)
	nameSeq map[string]int // order in which the names were last assigned on this path
	maps   map[int]*MapContent // Go maps created on this path (engine/maps.go)
	iterStart *State // snapshot at the loop head this path started from (state designator Si); nil before any loop
	ghost  map[string]Sc   // ghost variables of the function under verification
	caps   map[string]Val  // captured call arguments/results (contract directive `capture`)
	wcount map[string]int  // per table: number of write operations so far on this path (iterator validity)
}

func NewState() *State {
	return &State{regs: map[ssa.Value]Val{}, mem: map[*Loc]Val{}, arrs: map[*Arr]*ArrContent{}, comps: map[string]string{},
		iters: map[*IterObj]*IterState{}, writes: map[string]bool{}, names: map[string]Val{}, nameSeq: map[string]int{}, maps: map[int]*MapContent{}, ghost: map[string]Sc{}, wcount: map[string]int{}, caps: map[string]Val{}}
}

func (st *State) Clone() *State {
	n := &State{regs: make(map[ssa.Value]Val, len(st.regs)), mem: make(map[*Loc]Val, len(st.mem)),
		arrs: make(map[*Arr]*ArrContent, len(st.arrs)), comps: make(map[string]string, len(st.comps)),
		iters: make(map[*IterObj]*IterState, len(st.iters)), writes: make(map[string]bool, len(st.writes)), names: make(map[string]Val, len(st.names))}
	for k, v := range st.names {
		n.names[k] = v
	}
	n.iterStart = st.iterStart
	n.maps = make(map[int]*MapContent, len(st.maps))
	for k, v := range st.maps {
		n.maps[k] = v // contents are immutable values: updates replace the content
	}
	n.nameSeq = make(map[string]int, len(st.nameSeq))
	for k, v := range st.nameSeq {
		n.nameSeq[k] = v
	}
	n.caps = make(map[string]Val, len(st.caps))
	for k, v := range st.caps {
		n.caps[k] = v
	}
	n.wcount = make(map[string]int, len(st.wcount))
	for k, v := range st.wcount {
		n.wcount[k] = v
	}
	n.ghost = make(map[string]Sc, len(st.ghost))
	for k, v := range st.ghost {
		n.ghost[k] = v
	}
	for k, v := range st.regs {
		n.regs[k] = v
	}
	for k, v := range st.mem {
		n.mem[k] = v
	}
	for k, v := range st.arrs {
		n.arrs[k] = v
	}
	for k, v := range st.comps {
		n.comps[k] = v
	}
	for k, v := range st.iters {
		c := *v
		n.iters[k] = &c
	}
	for k, v := range st.writes {
		n.writes[k] = v
	}
	n.pc = append([]string(nil), st.pc...)
	n.trace = append([]string(nil), st.trace...)
	return n
}

func (st *State) assume(f string) {
	if f != "true" {
		st.pc = append(st.pc, f)
	}
}

// comp returns the current term of a state component, declaring the initial array on first use.
func (s *Session) comp(st *State, name string) string {
	if t, ok := st.comps[name]; ok {
		return t
	}
	c := s.Spec.Comps[name]
	if c == nil {
		panic("unknown state component " + name)
	}
	t := s.declare(name+"@0", c.Sort())
	st.comps[name] = t
	return t
}

func (s *Session) setComp(st *State, name, term string) {
	st.comps[name] = term
	st.writes[name] = true
}

// havocComp replaces a component by a fresh array.
func (s *Session) havocComp(st *State, name string) {
	c := s.Spec.Comps[name]
	if c.Table != "" {
		st.wcount[c.Table]++
	}
	t := s.declare(s.fresh(name), c.Sort())
	s.setComp(st, name, t)
}

// ---------------------------------------------------------------------------------------------
// Memory
// ---------------------------------------------------------------------------------------------

func (s *Session) locContent(st *State, l *Loc) Val {
	if v, ok := st.mem[l]; ok {
		return v
	}
	if l.Lazy {
		v := s.symVal(l.Name, l.Typ)
		if p, ok := v.(Ptr); ok && l.Glob != nil && p.Loc != nil {
			p.Loc.Sentinel = l.Glob.String()
			p.Nil = "false"
			v = p
		}
		if r, ok := v.(Rec); ok && l.Glob != nil {
			v = s.patchGlobalInit(l.Glob, r)
		}
		if ev, ok := v.(Err); ok && l.Glob != nil && globalErrInitialised(l.Glob) {
			// package-level error variable initialised with errors.New / fmt.Errorf / Register: non-nil,
			// and its identity is the sentinel code of the variable
			c := s.sentinelCode(l.Glob.String())
			st.assume(and(eq(ev.ID, c), eq(ev.Root, c)))
		}
		st.mem[l] = v
		return v
	}
	panic("location without content: " + l.Name)
}

func getPath(v Val, path []int) Val {
	for _, i := range path {
		r, ok := v.(Rec)
		if !ok {
			subsetf("field access into non-record value %T", v)
		}
		v = r.F[i]
	}
	return v
}

func setPath(v Val, path []int, nv Val) Val {
	if len(path) == 0 {
		return nv
	}
	r, ok := v.(Rec)
	if !ok {
		subsetf("field store into non-record value %T", v)
	}
	nr := Rec{F: append([]Val(nil), r.F...)}
	nr.F[path[0]] = setPath(r.F[path[0]], path[1:], nv)
	return nr
}

func (s *Session) load(st *State, p Ptr) Val {
	if p.Loc == nil {
		subsetf("load through nil pointer")
	}
	return getPath(s.locContent(st, p.Loc), p.Path)
}

// entryRoot: the parameter of the function under verification from which a lazily materialised
// object (name "<param>->...", "<param>[]...", "<param>.<field>->...") is reachable; "" for objects
// made by the function itself, returned by callees, or re-materialised after a havoc.
func (s *Session) entryRoot(name string) string {
	end := len(name)
	for _, sep := range []string{"->", "[]", ".", "?", "#", "@", "["} {
		if i := strings.Index(name, sep); i >= 0 && i < end {
			end = i
		}
	}
	if root := name[:end]; !strings.Contains(root, ":") && s.entryParams[root] {
		return root
	}
	return ""
}

// noteLocWrite / noteArrWrite record a write to an object that existed before the call (heap frame,
// checked at every return against `modifies *<param>` / `modifies elems:<param>...`).
func (s *Session) noteLocWrite(st *State, l *Loc) {
	if l == nil {
		return
	}
	if l.Glob != nil {
		st.writes["heap:global "+l.Glob.String()] = true
		return
	}
	if !l.Lazy {
		return
	}
	if r := s.entryRoot(l.Name); r != "" {
		st.writes["heap:"+l.Name] = true
	}
}

func (s *Session) noteArrWrite(st *State, a *Arr) {
	if a == nil || a.Fresh {
		return
	}
	if r := s.entryRoot(a.Name); r != "" {
		st.writes["heap:"+a.Name] = true
	}
}

func (s *Session) store(st *State, p Ptr, v Val) {
	if p.Loc == nil {
		subsetf("store through nil pointer")
	}
	s.noteLocWrite(st, p.Loc)
	st.mem[p.Loc] = setPath(s.locContent(st, p.Loc), p.Path, v)
}

func (s *Session) newLoc(st *State, name string, t types.Type, v Val) *Loc {
	l := &Loc{Name: name, Typ: t}
	st.mem[l] = v
	return l
}

// arrContent returns (materialising if needed) the content of a backing array.
func (s *Session) arrContent(st *State, a *Arr) *ArrContent {
	if c, ok := st.arrs[a]; ok {
		return c
	}
	c := &ArrContent{Cells: map[string]Val{}, Sym: !a.Zero}
	if sorts, ok := s.leafSorts(a.Elem); ok {
		var zl []string
		if a.Zero {
			s.flatten(s.zeroVal(a.Elem), &zl)
		}
		for i, so := range sorts {
			if a.Zero {
				c.Leaves = append(c.Leaves, fmt.Sprintf("((as const (Array Int %s)) %s)", so, zl[i]))
			} else {
				c.Leaves = append(c.Leaves, s.declare(fmt.Sprintf("%s#%d", a.Name, i), "(Array Int "+so+")"))
			}
		}
	}
	st.arrs[a] = c
	return c
}

func (s *Session) newArr(st *State, name string, elem types.Type, zero bool) *Arr {
	a := &Arr{Name: name, Elem: elem, Fresh: true}
	c := &ArrContent{Cells: map[string]Val{}, Sym: false}
	if sorts, ok := s.leafSorts(elem); ok {
		var zl []string
		if zero {
			s.flatten(s.zeroVal(elem), &zl)
		}
		for i, so := range sorts {
			if zero {
				c.Leaves = append(c.Leaves, fmt.Sprintf("((as const (Array Int %s)) %s)", so, zl[i]))
			} else {
				c.Leaves = append(c.Leaves, s.declare(s.fresh(name+"#"+fmt.Sprint(i)), "(Array Int "+so+")"))
			}
		}
	}
	st.arrs[a] = c
	return a
}

func (s *Session) arrRead(st *State, a *Arr, idx string) Val {
	c := s.arrContent(st, a)
	if c.Leaves != nil {
		leaves := make([]string, len(c.Leaves))
		for i, l := range c.Leaves {
			leaves[i] = fmt.Sprintf("(select %s %s)", l, idx)
		}
		// an element of a byte slice is a byte (range fact of the element type; sound for every Go value)
		if b, ok := a.Elem.Underlying().(*types.Basic); ok && b.Kind() == types.Uint8 && len(leaves) == 1 {
			st.assume(fmt.Sprintf("(and (<= 0 %s) (<= %s 255))", leaves[0], leaves[0]))
		}
		k := 0
		return s.unflatten(a.Elem, leaves, &k)
	}
	if v, ok := c.Cells[idx]; ok {
		return v
	}
	if c.Sym {
		v := s.symVal(fmt.Sprintf("%s[%s]", a.Name, idx), a.Elem)
		nc := *c
		nc.Cells = map[string]Val{}
		for k, x := range c.Cells {
			nc.Cells[k] = x
		}
		nc.Cells[idx] = v
		st.arrs[a] = &nc
		return v
	}
	return s.zeroVal(a.Elem)
}

func (s *Session) arrWrite(st *State, a *Arr, idx string, v Val) {
	s.noteArrWrite(st, a)
	c := s.arrContent(st, a)
	nc := *c
	if c.Leaves != nil {
		var leaves []string
		s.flatten(v, &leaves)
		nc.Leaves = make([]string, len(c.Leaves))
		for i, l := range c.Leaves {
			nc.Leaves[i] = fmt.Sprintf("(store %s %s %s)", l, idx, leaves[i])
		}
	} else {
		// cell arrays: only sound when all index terms used are syntactically distinct constants
		// or the same term; a symbolic index aliasing check is done by the caller.
		nc.Cells = map[string]Val{}
		for k, x := range c.Cells {
			nc.Cells[k] = x
		}
		nc.Cells[idx] = v
	}
	st.arrs[a] = &nc
}

func sortedKeys(m map[string]bool) []string {
	var ks []string
	for k := range m {
		ks = append(ks, k)
	}
	sort.Strings(ks)
	return ks
}

// globalErrInitialised: the package initialiser stores a freshly constructed error into g.
func globalErrInitialised(g *ssa.Global) bool {
	if g.Pkg == nil {
		return false
	}
	init := g.Pkg.Func("init")
	if init == nil {
		return false
	}
	for _, b := range init.Blocks {
		for _, ins := range b.Instrs {
			st, ok := ins.(*ssa.Store)
			if !ok || st.Addr != ssa.Value(g) {
				continue
			}
			v := st.Val
			if mi, ok := v.(*ssa.MakeInterface); ok {
				v = mi.X
			}
			switch c := v.(type) {
			case *ssa.Call:
				if f := c.Call.StaticCallee(); f != nil {
					switch f.Name() {
					case "New", "Errorf", "Register", "RegisterWithGRPCCode", "Wrap", "Wrapf":
						return true
					}
				}
			case *ssa.Alloc:
				return true
			}
		}
	}
	return false
}

// patchGlobalInit: fields of a package-level struct variable that the package initialiser sets to
// constants (composite literal) have those values; a scan of all loaded repo functions for other
// stores to package-level variables is part of the C10/C19 frame checks.
func (s *Session) patchGlobalInit(g *ssa.Global, r Rec) Val {
	if g.Pkg == nil {
		return r
	}
	init := g.Pkg.Func("init")
	if init == nil {
		return r
	}
	nr := Rec{F: append([]Val(nil), r.F...)}
	st, ok := g.Type().(*types.Pointer).Elem().Underlying().(*types.Struct)
	if !ok {
		return r
	}
	// literal initialisers are compiled either as stores of constants into the fields or, when all
	// fields are constant, as static data (then SSA shows no store: fields keep their zero value)
	for i := 0; i < st.NumFields(); i++ {
		nr.F[i] = s.zeroVal(st.Field(i).Type())
	}
	for _, b := range init.Blocks {
		for _, ins := range b.Instrs {
			sto, ok := ins.(*ssa.Store)
			if !ok {
				continue
			}
			fa, ok := sto.Addr.(*ssa.FieldAddr)
			if !ok || fa.X != ssa.Value(g) {
				continue
			}
			if c, ok := sto.Val.(*ssa.Const); ok {
				nr.F[fa.Field] = s.constVal(c)
			} else {
				nr.F[fa.Field] = r.F[fa.Field] // initialised from a non-constant expression: unknown
			}
		}
	}
	return nr
}

// resolveNames maps source-level variable names of function fn to values, scope-aware: when several
// variables of the function share a name (shadowing), a clause evaluated at position pos (the loop
// header for invariants; NoPos for postconditions) means the variable whose scope contains pos
// (innermost such); failing that the variable of the outermost scope; ties go to the latest assignment.
func (s *Session) resolveNames(st *State, fn *ssa.Function, pos token.Pos) map[string]Val {
	pfx := fn.String() + "."
	type cand struct {
		key   string
		obj   *types.Var
		depth int
		in    bool
	}
	groups := map[string][]cand{}
	for k := range st.names {
		if !strings.HasPrefix(k, pfx) {
			continue
		}
		rest := k[len(pfx):]
		i := strings.LastIndex(rest, "#")
		if i < 0 {
			continue
		}
		name := rest[:i]
		c := cand{key: k, obj: s.varObjs[k]}
		if c.obj != nil {
			for sc := c.obj.Parent(); sc != nil; sc = sc.Parent() {
				c.depth++
			}
			if pos != token.NoPos && c.obj.Parent() != nil && c.obj.Parent().Contains(pos) && c.obj.Pos() <= pos {
				c.in = true
			}
		}
		groups[name] = append(groups[name], c)
	}
	out := map[string]Val{}
	for name, cs := range groups {
		best := cs[0]
		better := func(a, b cand) bool { // a better than b
			if a.in != b.in {
				return a.in
			}
			if a.in { // both contain pos: innermost
				if a.depth != b.depth {
					return a.depth > b.depth
				}
			} else if a.depth != b.depth { // neither: outermost
				return a.depth < b.depth
			}
			return st.nameSeq[a.key] > st.nameSeq[b.key]
		}
		for _, c := range cs[1:] {
			if better(c, best) {
				best = c
			}
		}
		out[name] = st.names[best.key]
	}
	return out
}
