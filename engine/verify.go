package main

import (
	"go/token"
	"fmt"
	"go/types"
	"sort"
	"strings"

	"golang.org/x/tools/go/ssa"
)

type FuncResult struct {
	Func     string
	Contract *Contract
	Obls     []*Obligation
	Paths    int
	Subset   string // non-empty: function left the verifiable subset
	Assumed  []string
	Inlined  []string
	Sess     *Session
}

// VerifyFunction generates all obligations of one function under contract.
// KnownWhen: per function (short name) and obligation base name ("post.<label>"), the condition of a
// recorded known finding (known_findings.txt): the obligation is proved outside the condition and
// expected to be refutable inside it.
var KnownWhen = map[string]map[string]*Sx{}

func VerifyFunction(p *Program, spec *Spec, fn *ssa.Function, con *Contract) (res *FuncResult) {
	pkg := ""
	if fn.Pkg != nil {
		pkg = fn.Pkg.Pkg.Path()
	}
	s := NewSession(p, spec, pkg)
	s.BlenFacts = contractMentions(spec, con, "blen")
	x := &Exec{s: s, fn: fn, con: con, args: map[string]Val{}, argT: map[string]types.Type{}, nPre: map[string]int{}}
	res = &FuncResult{Func: fn.String(), Contract: con, Sess: s}
	defer func() {
		if r := recover(); r != nil {
			switch e := r.(type) {
			case SubsetError:
				res.Subset = e.Msg
			case error:
				res.Subset = "contract-error: " + e.Error()
			default:
				panic(r)
			}
		}
		res.Obls = x.obls
		res.Paths = x.paths
		res.Assumed = sortedKeys(s.Assumed)
		res.Inlined = sortedKeys(s.Inlined)
	}()
	st := NewState()
	var args []Val
	s.entryParams = map[string]bool{}
	for i, prm := range fn.Params {
		name := prm.Name()
		if name == "" || name == "_" {
			name = fmt.Sprintf("arg%d", i)
		}
		s.entryParams[name] = true
		v := s.symVal(name, prm.Type())
		args = append(args, v)
		x.args[name] = v
		x.argT[name] = prm.Type()
	}
	for _, g := range con.Ghosts {
		x.args[g.Name] = Sc{s.declare("ghost:"+g.Name, g.Sort), g.Sort}
	}
	// representation invariants of concrete parameter types (typeinv)
	for _, ti := range spec.TypeInvs {
		tt := p.LookupType(ti.Type)
		if tt == nil {
			continue
		}
		for i, prm := range fn.Params {
			if types.Identical(prm.Type(), tt) && s.abstractOf(prm.Type()) == nil {
				e0 := &Env{s: s, vars: map[string]Val{"x": args[i]}, typs: map[string]types.Type{"x": tt}, bound: map[string]bool{}, cur: st, old: st, where: fn.String() + " typeinv"}
				st.assume(e0.term(ti.Body))
			}
		}
	}
	for _, gv := range con.GhostVars {
		e0 := &Env{s: s, vars: map[string]Val{}, typs: map[string]types.Type{}, bound: map[string]bool{}, cur: st, old: st, where: fn.String() + " ghostvar"}
		st.ghost[gv.Name] = Sc{e0.term(gv.Init), gv.Sort}
	}
	x.entry = st // requires are evaluated in the entry state itself
	env := x.topEnv(st, fn.String()+" requires")
	for _, r := range con.Requires {
		st.assume(env.term(r.Sx))
	}
	x.entry = st.Clone()
	// vacuity: the precondition must be satisfiable
	x.oblig(&Obligation{Name: "cover.pre", Kind: "cover", Cover: true, Hyps: append([]string(nil), st.pc...), Goal: "true"})
	modset := spec.expandModifies(con.Modifies)
	nret := 0
	x.runFunc(st, fn, args, nil, 0, con, true, func(st *State, results []Val) {
		x.paths++
		nret++
		env := x.topEnv(st, fn.String()+" ensures")
		sig := fn.Signature
		// source-level locals (latest values); locals never assigned on this path are undefined values
		for n, v := range s.resolveNames(st, fn, token.NoPos) {
			if _, clash := env.vars[n]; !clash {
				env.vars[n] = v
			}
		}
		for _, b := range fn.Blocks {
			for _, ins := range b.Instrs {
				if dr, ok := ins.(*ssa.DebugRef); ok {
					if obj, ok := dr.Object().(*types.Var); ok {
						if _, have := env.vars[obj.Name()]; !have {
							env.vars[obj.Name()] = s.symVal("undef.local:"+obj.Name(), obj.Type())
						}
						if _, have := env.typs[obj.Name()]; !have {
							env.typs[obj.Name()] = obj.Type()
						}
					}
				}
			}
		}
		bindResults(env, sig, results)
		trace := strings.Join(st.trace, " ")
		for _, w := range con.OrmPost {
			st.assume(env.term(w.Sx))
		}
		for _, e := range con.Ensures {
			if e.Trusted {
				s.Assumed["trusted clause "+shortName(fn.String())+"["+e.Label+"] (used by callers, not proved; see bounded conformance)"] = true
				continue
			}
			goal := env.term(e.Sx)
			hyps := append([]string(nil), st.pc...)
			if kw := KnownWhen[shortName(fn.String())]["post."+e.Label]; kw != nil {
				// known finding: prove the clause outside its recorded condition; inside it the
				// clause is expected to be refutable (then KNOWN-FINDING is printed)
				env0 := *env
				env0.cur = x.entry
				when := env0.term(kw)
				x.oblig(&Obligation{Name: fmt.Sprintf("known.%s#%d", e.Label, nret), Kind: "known", Label: e.Label, Cover: true, Group: "known." + e.Label,
					Hyps: append(append([]string(nil), st.pc...), when, not(goal)), Goal: "true", Trace: trace, Src: e.Src})
				hyps = append(hyps, not(when))
			}
			x.oblig(&Obligation{Name: fmt.Sprintf("post.%s#%d", e.Label, nret), Kind: "post", Label: e.Label,
				Hyps: hyps, Goal: goal, Trace: trace, Src: e.Src})
			// vacuity: the antecedent of an implication must be reachable on some return path
			if e.Sx.Head() == "=>" && len(e.Sx.List) == 3 {
				ante := env.term(e.Sx.List[1])
				x.retOK = append(x.retOK, &Obligation{Name: fmt.Sprintf("cover.ante.%s#%d", e.Label, nret), Kind: "cover", Cover: true, Group: "ante." + e.Label,
					Hyps: append(append([]string(nil), st.pc...), ante), Goal: "true", Trace: trace, Src: e.Src})
			}
		}
		// frame: components written on this path must be covered by `modifies`
		var bad []string
		for c := range st.writes {
			if strings.HasPrefix(c, "heap:") {
				// heap frame: an object that existed before the call (reachable from a parameter) was
				// written: the contract must say so, callers forget what they knew of it
				obj, covered := c[len("heap:"):], false
				for _, m := range con.Modifies {
					switch {
					case strings.HasPrefix(m, "*"):
						covered = covered || strings.HasPrefix(obj, m[1:]+"->") || strings.HasPrefix(obj, m[1:]+"[]")
					case strings.HasPrefix(m, "elems:"):
						covered = covered || strings.HasPrefix(obj, m[len("elems:"):]+"[]")
					}
				}
				if !covered {
					root := s.entryRoot(obj)
					if root == "" {
						root = obj
					}
					bad = append(bad, "object "+obj+" reachable from parameter "+root+" (needs `modifies *<path>`)")
				}
				continue
			}
			if !modset[c] {
				bad = append(bad, c)
			}
		}
		sort.Strings(bad)
		o := &Obligation{Name: fmt.Sprintf("frame.modifies#%d", nret), Kind: "frame", Label: "modifies", Trace: trace, Static: "ok"}
		if len(bad) > 0 {
			// a write outside the footprint is only a violation if the path is feasible
			o.Static = ""
			o.Hyps = append([]string(nil), st.pc...)
			o.Goal = "false"
			o.Src = "writes outside modifies: " + strings.Join(bad, ", ")
		}
		x.oblig(o)
		// success cover candidate
		if ev, ok := env.vars["err"].(Err); ok {
			x.retOK = append(x.retOK, &Obligation{Name: fmt.Sprintf("cover.success#%d", nret), Kind: "cover", Cover: true, Group: "success",
				Hyps: append(append([]string(nil), st.pc...), eq(ev.ID, "0")), Goal: "true", Trace: trace})
		} else {
			x.retOK = append(x.retOK, &Obligation{Name: fmt.Sprintf("cover.return#%d", nret), Kind: "cover", Cover: true, Group: "return",
				Hyps: append([]string(nil), st.pc...), Goal: "true", Trace: trace})
		}
	})
	for _, o := range x.retOK {
		x.oblig(o)
	}
	return res
}

func bindResults(env *Env, sig *types.Signature, results []Val) {
	res := sig.Results()
	if res.Len() == 0 {
		return
	}
	if res.Len() == 1 {
		env.vars["result"] = results[0]
		env.typs["result"] = res.At(0).Type()
	} else {
		env.vars["result"] = Rec{F: results}
		env.typs["result"] = res
	}
	for i := 0; i < res.Len(); i++ {
		if n := res.At(i).Name(); n != "" && n != "_" {
			env.vars[n] = results[i]
			env.typs[n] = res.At(i).Type()
		}
	}
	last := res.At(res.Len() - 1)
	if isErrorType(last.Type()) {
		env.vars["err"] = results[res.Len()-1]
		env.typs["err"] = last.Type()
	}
}

// contractMentions: does a clause of the contract (after macro expansion) mention the symbol?
func contractMentions(sp *Spec, con *Contract, sym string) bool {
	names := map[string]bool{sym: true}
	for changed := true; changed; {
		changed = false
		for n, m := range sp.Macros {
			if names[n] {
				continue
			}
			if sxMentions(m.Body, names) {
				names[n] = true
				changed = true
			}
		}
	}
	var all []*Sx
	for _, l := range con.Lets {
		all = append(all, l)
	}
	for _, cs := range [][]Clause{con.Requires, con.Ensures, con.OrmPost, con.Panics} {
		for _, c := range cs {
			all = append(all, c.Sx)
		}
	}
	for _, l := range con.Loops {
		for _, c := range l.Inv {
			all = append(all, c.Sx)
		}
		for _, u := range l.Updates {
			all = append(all, u.Sx)
		}
	}
	for _, e := range all {
		if sxMentions(e, names) {
			return true
		}
	}
	return false
}

func sxMentions(e *Sx, names map[string]bool) bool {
	if e == nil {
		return false
	}
	if !e.IsL {
		return names[e.Atom]
	}
	for _, c := range e.List {
		if sxMentions(c, names) {
			return true
		}
	}
	return false
}
