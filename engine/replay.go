package main

import (
	"encoding/json"
	"fmt"
	"os"
	"os/exec"
	"path/filepath"
	"regexp"
	"strings"
	"time"
)

// Replay of a counterexample on the real code (DESIGN.md 2.9): a Go test template per
// (property, function) is filled with the values the solver's model assigns to the named terms,
// injected into the package with `go test -overlay` (nothing is written into /repo) and run.
// The template evaluates the PROPERTY on the real code and prints REPRODUCED / NOT-REPRODUCED.

var tmplVar = regexp.MustCompile(`^//govc:var (\w+) = (.+?) default=(\S+)\s*$`)

func tryReplay(cfg *PropCfg, fn, name string, o *Obligation, sess *Session, dir string) string {
	if o == nil || sess == nil || o.Result != "sat" {
		return ""
	}
	tp := filepath.Join("/verif/replay_templates", cfg.ID, shortName(fn)+".tmpl")
	b, err := os.ReadFile(tp)
	if err != nil {
		return ""
	}
	src := string(b)
	module, pkgdir := "", ""
	type tv struct{ name, term, def string }
	var vars []tv
	for _, ln := range strings.Split(src, "\n") {
		if strings.HasPrefix(ln, "//govc:module ") {
			module = strings.TrimSpace(ln[14:])
		}
		if strings.HasPrefix(ln, "//govc:pkgdir ") {
			pkgdir = strings.TrimSpace(ln[14:])
		}
		if m := tmplVar.FindStringSubmatch(ln); m != nil {
			vars = append(vars, tv{m[1], m[2], m[3]})
		}
	}
	if module == "" || pkgdir == "" {
		return "replay template " + tp + " lacks module/pkgdir"
	}
	scratch, _ := os.MkdirTemp("/var/tmp", "govc-replay.")
	defer os.RemoveAll(scratch)
	// values from the model (one solver run for all terms, so the values are consistent)
	vals := map[string]string{}
	var terms []string
	for _, v := range vars {
		vals[v.name] = v.def
		bare := strings.Trim(v.term, "|")
		_, ok1 := sess.declared[v.term]
		_, ok2 := sess.declared[bare]
		if !ok1 && !ok2 && !strings.HasPrefix(v.term, "(") {
			continue // symbol not part of this query
		}
		terms = append(terms, v.term)
	}
	if len(terms) > 0 {
		q := sess.Query(o)
		for _, t := range terms {
			q += fmt.Sprintf("(get-value (%s))\n", t)
		}
		qf := filepath.Join(scratch, "gv.smt2")
		os.WriteFile(qf, []byte(q), 0o644)
		out, _ := exec.Command("z3-new", "-T:20", qf).CombinedOutput()
		lines := strings.Split(string(out), "\n")
		if len(lines) > 1 && strings.TrimSpace(lines[0]) == "sat" {
			rest := lines[1:]
			for i, t := range terms {
				if i >= len(rest) {
					break
				}
				txt := strings.TrimSpace(rest[i])
				bare := strings.Trim(t, "|")
				j := strings.Index(txt, bare)
				if j < 0 {
					continue
				}
				val := strings.TrimSpace(strings.TrimLeft(txt[j+len(bare):], "|"))
				val = strings.TrimSuffix(strings.TrimSuffix(strings.TrimSpace(val), ")"), ")")
				val = strings.TrimSpace(val)
				if strings.HasPrefix(val, "(- ") {
					val = "-" + strings.TrimSuffix(val[3:], ")")
				}
				if val != "" && !strings.ContainsAny(val, "( ") {
					for _, v := range vars {
						if v.term == t {
							vals[v.name] = val
						}
					}
				}
			}
		}
	}
	var used []string
	for _, v := range vars {
		src = strings.ReplaceAll(src, "{{"+v.name+"}}", vals[v.name])
		used = append(used, v.name+"="+vals[v.name])
	}
	tf := filepath.Join(scratch, "zz_verif_replay_test.go")
	os.WriteFile(tf, []byte(src), 0o644)
	ov := map[string]map[string]string{"Replace": {filepath.Join(repoRoot(), pkgdir, "zz_verif_replay_test.go"): tf}}
	ob, _ := json.Marshal(ov)
	of := filepath.Join(scratch, "overlay.json")
	os.WriteFile(of, ob, 0o644)
	rel := "./" + strings.TrimPrefix(strings.TrimPrefix(pkgdir, module), "/")
	if rel == "./" {
		rel = "."
	}
	cmd := exec.Command("go", "test", "-overlay", of, "-vet=off", "-count=1", "-timeout", "120s", "-run", "TestVerifReplay", "-v", rel)
	cmd.Dir = filepath.Join(repoRoot(), module)
	cmd.Env = append(os.Environ(), "GOFLAGS=-mod=mod", "GOPROXY=off", "GOSUMDB=off", "GOTOOLCHAIN=local")
	t0 := time.Now()
	out, _ := cmd.CombinedOutput()
	var keep []string
	for _, ln := range strings.Split(string(out), "\n") {
		if strings.Contains(ln, "REPRODUCED") || strings.HasPrefix(ln, "FAIL") || strings.HasPrefix(ln, "ok") || strings.Contains(ln, "panic") {
			keep = append(keep, ln)
		}
	}
	// keep the filled-in test next to the replay file so it can be re-run by hand
	saved := filepath.Join(dir, sanitize(shortName(fn)+"."+name)+"_replay_test.go")
	os.WriteFile(saved, []byte(src), 0o644)
	return fmt.Sprintf("template: %s\nmodel values: %s\ncommand: (cd /repo/%s && go test -overlay <%s as %s/zz_verif_replay_test.go> -run TestVerifReplay %s)  [%.1fs]\n%s",
		tp, strings.Join(used, " "), module, saved, pkgdir, rel, time.Since(t0).Seconds(), strings.Join(keep, "\n"))
}
