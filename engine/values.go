package main

import (
	"fmt"
	"go/types"
	"strings"

	"golang.org/x/tools/go/ssa"
)

// ---------------------------------------------------------------------------------------------
// Symbolic values. All values are immutable; mutable things (locations, backing arrays) are
// identities whose contents live in the per-path State.
// ---------------------------------------------------------------------------------------------

type Val interface{}

// Sc is a scalar SMT term of sort Int, Bool or Real. Strings, byte-string contents, abstract
// library values (decimals, times, contexts) are Int-coded.
type Sc struct {
	T    string
	Sort string
}

// Rec is a struct / tuple / small fixed array value.
type Rec struct{ F []Val }

// Loc is the identity of a memory location (an Alloc, a `new`, an object reachable from a parameter,
// or a fresh object returned by a contract). Its content lives in State.mem.
type Loc struct {
	Name     string     // stable name used for lazily materialised symbolic contents
	Typ      types.Type // type of the content
	Lazy     bool       // content is symbolic and materialised on first access
	Glob     *ssa.Global
	Sentinel string // non-empty: the object a package-level pointer variable (error sentinel) points to
}

// Ptr is a pointer to (a sub-object of) a location or array element. Nil is an SMT Bool term.
type Ptr struct {
	Loc  *Loc
	Arr  *Arr   // pointer to an element of a backing array (then Idx is the element index term)
	Idx  string
	Path []int
	Nil  string
}

// Arr is the identity of a backing array of a slice. Content lives in State.arrs.
type Arr struct {
	Name string
	Elem types.Type
	Zero bool // content starts as all zero values (local fixed-size arrays)
	Fresh bool // made by the function under verification (make / append / literal): not visible to its caller at entry
}

// ArrayV is a fixed-size array value with more than 8 elements: its elements live in a backing
// array (shared with the slices taken of it through a pointer).
type ArrayV struct {
	Arr *Arr
	N   int64
}

// ArrContent: for element types that flatten to SMT leaves, Leaves holds one SMT array term
// (Array Int LeafSort) per leaf; other element types (pointers, interfaces) are kept per index term.
type ArrContent struct {
	Leaves []string
	Cells  map[string]Val // index term -> value (pointer / interface elements)
	Sym    bool           // unknown cells are symbolic (input data) rather than zero
}

type Slice struct {
	Arr           *Arr
	Off, Len, Cap string
}

// Iface is a non-error interface value: either made from a concrete value (Dyn != nil) or opaque.
type Iface struct {
	Dyn types.Type
	V   Val
	Tok string // Int term identifying an opaque interface value
}

// Err models an error value: ID is its identity for ==, Root the sentinel it wraps (errors.Is).
// nil iff ID == 0.
type Err struct{ ID, Root string }

// MapV is a Go map created in the function under verification (engine/maps.go).
type MapV struct{ ID int }

type Fn struct {
	F    *ssa.Function
	Bind []Val
	Tok  string
}

// Opaque is a value the engine does not model; using it is an error (function leaves the subset).
type Opaque struct{ Why string }

// IndexKey is an ORM index key value (engine-side, see orm.go).
type IndexKey struct {
	Table  string
	Fields []string
	Vals   []Val
	All    []string // all fields of the index, in index order (from the longest With... method)
}

// IterV is an ORM iterator (engine-side, see orm.go).
type IterV struct{ It *IterObj }

func (s Sc) String() string { return s.T }

func scInt(t string) Sc  { return Sc{t, "Int"} }
func scBool(t string) Sc { return Sc{t, "Bool"} }

// ---------------------------------------------------------------------------------------------
// SMT helpers
// ---------------------------------------------------------------------------------------------

func q(name string) string {
	simple := true
	for _, c := range name {
		if !(c >= 'a' && c <= 'z' || c >= 'A' && c <= 'Z' || c >= '0' && c <= '9' || c == '_' || c == '.' || c == '!' || c == '$') {
			simple = false
			break
		}
	}
	if simple && len(name) > 0 && !(name[0] >= '0' && name[0] <= '9') {
		return name
	}
	return "|" + strings.NewReplacer("|", "!", "\\", "/").Replace(name) + "|"
}

func num(n int64) string {
	if n < 0 {
		return fmt.Sprintf("(- %d)", -n)
	}
	return fmt.Sprintf("%d", n)
}

func and(xs ...string) string {
	var ys []string
	for _, x := range xs {
		if x == "true" || x == "" {
			continue
		}
		if x == "false" {
			return "false"
		}
		ys = append(ys, x)
	}
	if len(ys) == 0 {
		return "true"
	}
	if len(ys) == 1 {
		return ys[0]
	}
	return "(and " + strings.Join(ys, " ") + ")"
}

func or(xs ...string) string {
	var ys []string
	for _, x := range xs {
		if x == "false" || x == "" {
			continue
		}
		if x == "true" {
			return "true"
		}
		ys = append(ys, x)
	}
	if len(ys) == 0 {
		return "false"
	}
	if len(ys) == 1 {
		return ys[0]
	}
	return "(or " + strings.Join(ys, " ") + ")"
}

func not(x string) string {
	if x == "true" {
		return "false"
	}
	if x == "false" {
		return "true"
	}
	if strings.HasPrefix(x, "(not ") && parenBalance(x[5:len(x)-1]) == 0 {
		return x[5 : len(x)-1]
	}
	return "(not " + x + ")"
}

// knownNonzero: names of constants that are constrained (by session facts) to be non-zero
// (fresh error identities). Used only to simplify comparisons with 0.
var knownNonzero = map[string]bool{}

func isNumeralTerm(t string) bool {
	if t == "" {
		return false
	}
	for _, c := range t {
		if c < '0' || c > '9' {
			return false
		}
	}
	return true
}

func eq(a, b string) string {
	if a == b {
		return "true"
	}
	if isNumeralTerm(a) && isNumeralTerm(b) {
		return "false"
	}
	if a == "0" {
		a, b = b, a
	}
	if b == "0" {
		if knownNonzero[a] {
			return "false"
		}
		if c, x, y, ok := splitIte(a); ok {
			ex, ey := eq(x, "0"), eq(y, "0")
			if (ex == "true" || ex == "false") || (ey == "true" || ey == "false") {
				return iteBool(c, ex, ey)
			}
		}
	}
	return "(= " + a + " " + b + ")"
}

func iteBool(c, a, b string) string {
	switch {
	case a == b:
		return a
	case a == "true" && b == "false":
		return c
	case a == "false" && b == "true":
		return not(c)
	case a == "true":
		return or(c, b)
	case a == "false":
		return and(not(c), b)
	case b == "true":
		return or(not(c), a)
	case b == "false":
		return and(c, a)
	}
	return "(ite " + c + " " + a + " " + b + ")"
}

// splitIte parses "(ite c x y)" into its three arguments.
func splitIte(t string) (c, x, y string, ok bool) {
	if !strings.HasPrefix(t, "(ite ") || !strings.HasSuffix(t, ")") {
		return
	}
	body := t[5 : len(t)-1]
	var parts []string
	depth, start := 0, 0
	inBar := false
	for i := 0; i < len(body); i++ {
		ch := body[i]
		if ch == '|' {
			inBar = !inBar
		}
		if inBar {
			continue
		}
		switch ch {
		case '(':
			depth++
		case ')':
			depth--
		case ' ':
			if depth == 0 {
				parts = append(parts, body[start:i])
				start = i + 1
			}
		}
	}
	parts = append(parts, body[start:])
	if len(parts) != 3 {
		return
	}
	return parts[0], parts[1], parts[2], true
}

func ite(c, a, b string) string {
	if c == "true" {
		return a
	}
	if c == "false" {
		return b
	}
	if a == b {
		return a
	}
	return "(ite " + c + " " + a + " " + b + ")"
}

func implies(a, b string) string {
	if a == "true" {
		return b
	}
	if a == "false" || b == "true" {
		return "true"
	}
	return "(=> " + a + " " + b + ")"
}

// ---------------------------------------------------------------------------------------------
// Type classification
// ---------------------------------------------------------------------------------------------

func typeKey(t types.Type) string {
	return types.TypeString(t, nil)
}

var errorType = types.Universe.Lookup("error").Type()

func isErrorType(t types.Type) bool {
	return types.Identical(t, errorType)
}

func isByteSlice(t types.Type) bool {
	s, ok := t.Underlying().(*types.Slice)
	if !ok {
		return false
	}
	b, ok := s.Elem().Underlying().(*types.Basic)
	return ok && (b.Kind() == types.Uint8)
}

func intRange(b *types.Basic) (lo, hi string, ok bool) {
	switch b.Kind() {
	case types.Int8:
		return "(- 128)", "127", true
	case types.Int16:
		return "(- 32768)", "32767", true
	case types.Int32:
		return "(- 2147483648)", "2147483647", true
	case types.Int64, types.Int:
		return "(- 9223372036854775808)", "9223372036854775807", true
	case types.Uint8:
		return "0", "255", true
	case types.Uint16:
		return "0", "65535", true
	case types.Uint32:
		return "0", "4294967295", true
	case types.Uint64, types.Uint, types.Uintptr:
		return "0", "18446744073709551615", true
	}
	return "", "", false
}

func intModulus(b *types.Basic) (mod string, signed bool, ok bool) {
	switch b.Kind() {
	case types.Int8:
		return "256", true, true
	case types.Int16:
		return "65536", true, true
	case types.Int32:
		return "4294967296", true, true
	case types.Int64, types.Int:
		return "18446744073709551616", true, true
	case types.Uint8:
		return "256", false, true
	case types.Uint16:
		return "65536", false, true
	case types.Uint32:
		return "4294967296", false, true
	case types.Uint64, types.Uint, types.Uintptr:
		return "18446744073709551616", false, true
	}
	return "", false, false
}
