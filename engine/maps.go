package main

import (
	"fmt"
	"go/types"

	"golang.org/x/tools/go/ssa"
)

// Go maps (minimal, sound model). A map created in the function under verification is an
// association list of (scalar key term, value); a map written inside a loop is unknown from the loop
// head on (its content is havocked like every other location the loop writes). A lookup in an unknown
// map yields an unconstrained value and an unconstrained presence bit; a lookup in a known map is the
// ite chain over its entries (scalar element types only). Ranging over a map, len, delete and maps that
// come from outside the function stay outside the subset.
type mapEntry struct {
	K string
	V Val
}

type MapContent struct {
	Unknown bool
	Entries []mapEntry
	Elem    types.Type
}

func (x *Exec) makeMap(st *State, in *ssa.MakeMap) {
	mt := in.Type().Underlying().(*types.Map)
	x.s.n++
	id := x.s.n
	st.maps[id] = &MapContent{Elem: mt.Elem()}
	st.regs[in] = MapV{ID: id}
}

func (x *Exec) mapOf(st *State, v ssa.Value) (*MapContent, MapV) {
	mv, ok := x.get(st, v).(MapV)
	if !ok {
		subsetf("map value that was not created in the function under verification")
	}
	c := st.maps[mv.ID]
	if c == nil {
		subsetf("map value of another path")
	}
	return c, mv
}

func (x *Exec) mapUpdate(st *State, in *ssa.MapUpdate) {
	c, mv := x.mapOf(st, in.Map)
	k, ok := x.get(st, in.Key).(Sc)
	if !ok {
		subsetf("map with a non-scalar key")
	}
	nc := &MapContent{Unknown: c.Unknown, Elem: c.Elem, Entries: append(append([]mapEntry(nil), c.Entries...), mapEntry{k.T, x.get(st, in.Value)})}
	st.maps[mv.ID] = nc
}

func (x *Exec) mapLookup(st *State, fr *frame, in *ssa.Lookup) {
	if _, isMap := in.X.Type().Underlying().(*types.Map); !isMap {
		subsetf("Lookup on %s", in.X.Type())
	}
	s := x.s
	c, _ := x.mapOf(st, in.X)
	k, ok := x.get(st, in.Index).(Sc)
	if !ok {
		subsetf("map with a non-scalar key")
	}
	var val Val
	var present string
	switch {
	case c.Unknown:
		val = s.symVal(s.fresh(fr.fn.Name()+".maplookup"), c.Elem)
		present = s.declare(s.fresh(fr.fn.Name()+".mapfound"), "Bool")
	case len(c.Entries) == 0:
		val, present = s.zeroVal(c.Elem), "false"
	default:
		z, isSc := s.zeroVal(c.Elem).(Sc)
		if !isSc {
			subsetf("lookup in a map with non-scalar values and known entries")
		}
		t, pr := z.T, "false"
		for _, e := range c.Entries { // later entries override earlier ones
			ev, ok := e.V.(Sc)
			if !ok {
				subsetf("lookup in a map with non-scalar values and known entries")
			}
			hit := eq(k.T, e.K)
			t = ite(hit, ev.T, t)
			pr = or(hit, pr)
		}
		val, present = Sc{t, z.Sort}, pr
	}
	if in.CommaOk {
		st.regs[in] = Rec{F: []Val{val, scBool(present)}}
	} else {
		st.regs[in] = val
	}
}

// havocMaps: maps updated in a loop body are unknown from the loop head on.
func (x *Exec) havocMaps(st *State, fr *frame, roots map[ssa.Value]bool) {
	for r := range roots {
		if v, ok := st.regs[r]; ok {
			if mv, ok := v.(MapV); ok {
				if c := st.maps[mv.ID]; c != nil {
					st.maps[mv.ID] = &MapContent{Unknown: true, Elem: c.Elem}
				}
			}
		}
	}
}

var _ = fmt.Sprintf
