package main

import (
	"go/ast"
	"strconv"
	"go/token"
	"fmt"
	"go/types"
	"strings"

	"golang.org/x/tools/go/ssa"
)

// localEnv builds the name -> value map for invariants / postconditions of the function executing
// in frame fr: parameters, named locals held in Allocs (current content), named Phis.
func (x *Exec) localEnv(st *State, fr *frame, env *Env, pos token.Pos) {
	for _, p := range fr.fn.Params {
		if v, ok := st.regs[p]; ok {
			env.vars[p.Name()] = v
			env.typs[p.Name()] = p.Type()
		}
	}
	for _, fv := range fr.fn.FreeVars {
		if v, ok := st.regs[fv]; ok {
			if p, ok := v.(Ptr); ok && p.Loc != nil {
				env.vars[fv.Name()] = x.s.load(st, p)
				env.typs[fv.Name()] = fv.Type().(*types.Pointer).Elem()
			}
		}
	}
	for n, v := range x.s.resolveNames(st, fr.fn, pos) {
		env.vars[n] = v
		delete(env.typs, n)
	}
	allocPos := map[string]token.Pos{}
	for _, b := range fr.fn.Blocks {
		for _, ins := range b.Instrs {
			switch in := ins.(type) {
			case *ssa.Range:
				if pv, ok := st.regs[in].(Ptr); ok && pv.Loc != nil {
					if r, ok := st.mem[pv.Loc].(Rec); ok && len(r.F) == 2 {
						env.vars["rangepos"] = r.F[1]
						env.vars["rangestr"] = r.F[0]
					}
				}
			case *ssa.DebugRef:
				if obj, ok := in.Object().(*types.Var); ok {
					if _, have := env.vars[obj.Name()]; have {
						env.typs[obj.Name()] = obj.Type()
					} else if !in.IsAddr {
						// a source-level local that was not assigned on this path (e.g. the iteration was left by
						// `continue` before the assignment): an undefined value of its type
						env.vars[obj.Name()] = x.s.symVal("undef.local:"+obj.Name(), obj.Type())
						env.typs[obj.Name()] = obj.Type()
					}
				}
			case *ssa.Alloc:
				if in.Comment == "" {
					continue
				}
				if v, ok := st.regs[in]; ok {
					if p, ok := v.(Ptr); ok && p.Loc != nil {
						if c, ok := st.mem[p.Loc]; ok {
							// several addressable locals of one name (shadowing): the first declared (outer) one
							if old, dup := allocPos[in.Comment]; dup && old != token.NoPos && in.Pos() != token.NoPos && in.Pos() > old {
								continue
							}
							allocPos[in.Comment] = in.Pos()
							env.vars[in.Comment] = c
							env.typs[in.Comment] = in.Type().(*types.Pointer).Elem()
						}
					}
				}
			case *ssa.Phi:
				if in.Comment == "" {
					continue
				}
				if v, ok := st.regs[in]; ok {
					env.vars[in.Comment] = v
					env.typs[in.Comment] = in.Type()
				}
			}
		}
	}
}

func (x *Exec) topEnv(st *State, where string) *Env {
	env := &Env{s: x.s, vars: map[string]Val{}, typs: map[string]types.Type{}, bound: map[string]bool{}, where: where}
	if x.con != nil {
		env.lets = x.con.Lets
	}
	for n, v := range x.args {
		env.vars[n] = v
		env.typs[n] = x.argT[n]
	}
	for n, v := range st.ghost {
		env.vars[n] = v
	}
	if x.con != nil {
		for _, c := range x.con.Captures {
			// a capture that did not happen on this path denotes the empty slice / an undefined scalar
			if c.Kind == "scalar" {
				env.vars[c.Name] = Sc{x.s.declare("undef.capture:"+c.Name, "Int"), "Int"}
			} else if c.Kind == "err" {
				env.vars[c.Name] = Err{"0", "0"} // the call did not happen: no error from it
			} else if t := x.captureArgType(c); t != nil && !isByteSlice(t) {
				// a captured argument of another type: undefined value of that type when the call did not happen
				env.vars[c.Name] = x.s.symVal("undef.capture:"+c.Name, t)
				env.typs[c.Name] = t
			} else {
				env.vars[c.Name] = Slice{Off: "0", Len: "0", Cap: "0"}
			}
		}
	}
	for n, v := range st.caps {
		env.vars[n] = v
		if t, ok := x.capTypes[n]; ok {
			env.typs[n] = t
		}
	}
	env.cur, env.old = st, x.entry
	return env
}

func (x *Exec) loopInvariants(st *State, fr *frame, li *loopInfo, mode string, assert bool) {
	con := fr.con
	if con == nil {
		if mode == "entry" {
			subsetf("loop %d of %s has no invariant (function without contract)", li.ord, fr.fn)
		}
		return
	}
	ls := con.Loops[li.ord]
	env := x.topEnv(st, fmt.Sprintf("%s loop %d", fr.fn, li.ord))
	if !fr.top {
		// inlined function: only its own locals/params are in scope, S is the state at top entry
		env.vars = map[string]Val{}
		env.typs = map[string]types.Type{}
		for n, v := range x.args {
			if _, isGhost := x.ghostSet()[n]; isGhost {
				env.vars[n] = v
			}
		}
		env.lets = con.Lets
	}
	x.localEnv(st, fr, env, loopScopePos(fr.fn, li))
	if assert {
		// iterator protocol invariant for iterators advanced in this loop
		if x.loopAdvancesIter(li) {
			for it, is := range st.iters {
				x.oblig(&Obligation{Name: fmt.Sprintf("loop%d.%s.iterbound", li.ord, mode), Kind: "loop." + mode, Label: "iterbound",
					Hyps: append([]string(nil), st.pc...), Goal: iterBound(is.Pos, it.N), Trace: strings.Join(st.trace, " "), Src: "iterator not exhausted at loop head"})
			}
		}
	}
	if ls == nil {
		return // no invariant given: loop is cut with `true`
	}
	if mode == "preserve" {
		// ghost updates at the end of the iteration
		for _, u := range ls.Updates {
			old, ok := st.ghost[u.Var]
			if !ok {
				panic(fmt.Errorf("%s: loop update of undeclared ghost variable %s", fr.fn, u.Var))
			}
			nv := Sc{env.term(u.Sx), old.Sort}
			st.ghost[u.Var] = nv
			env.vars[u.Var] = nv
		}
	}
	for _, c := range ls.Inv {
		t := env.term(c.Sx)
		if assert {
			x.oblig(&Obligation{Name: fmt.Sprintf("loop%d.%s.%s", li.ord, mode, c.Label), Kind: "loop." + mode, Label: c.Label,
				Hyps: append([]string(nil), st.pc...), Goal: t, Trace: strings.Join(st.trace, " "), Src: c.Src})
		} else {
			st.assume(t)
		}
	}
}

func (x *Exec) loopAdvancesIter(li *loopInfo) bool {
	eff := &effects{comps: map[string]bool{}, types: map[string]bool{}, allocs: map[*ssa.Alloc]bool{}, seen: map[*ssa.Function]bool{}}
	for b := range li.body {
		x.blockEffects(b, eff, 0)
	}
	return eff.iters
}

func (x *Exec) ghostSet() map[string]bool {
	m := map[string]bool{}
	if x.con != nil {
		for _, g := range x.con.Ghosts {
			m[g.Name] = true
		}
	}
	return m
}

// havocLoop forgets everything the loop body may change: header phis, state components written
// by calls in the body, memory locations and arrays stored to in the body.
func (x *Exec) havocLoop(st *State, fr *frame, li *loopInfo) {
	s := x.s
	for _, ins := range li.header.Instrs {
		phi, ok := ins.(*ssa.Phi)
		if !ok {
			break
		}
		st.regs[phi] = s.symVal(s.fresh(fr.fn.Name()+"."+phiName(phi)), phi.Type())
		if phi.Comment == "rangeindex" {
			// structural fact of the lowering of `for i := range slice`: the hidden index starts at -1
			// and is only ever incremented
			if sc, ok := st.regs[phi].(Sc); ok {
				st.assume("(>= " + sc.T + " (- 1))")
			}
		}
	}
	if fr.con != nil {
		if ls := fr.con.Loops[li.ord]; ls != nil {
			for _, u := range ls.Updates {
				if old, ok := st.ghost[u.Var]; ok {
					st.ghost[u.Var] = Sc{s.declare(s.fresh("ghostvar:"+u.Var), old.Sort), old.Sort}
				}
			}
		}
	}
	eff := &effects{comps: map[string]bool{}, types: map[string]bool{}, allocs: map[*ssa.Alloc]bool{}, seen: map[*ssa.Function]bool{}}
	for b := range li.body {
		x.blockEffects(b, eff, 0)
	}
	for _, c := range sortedKeys(eff.comps) {
		s.havocComp(st, c)
	}
	x.havocMaps(st, fr, eff.maps)
	// locations: allocs of this function written in the loop, plus every location whose type is
	// stored through a non-local pointer
	for a := range eff.allocs {
		if v, ok := st.regs[a]; ok {
			if p, ok := v.(Ptr); ok && p.Loc != nil {
				s.noteLocWrite(st, p.Loc)
				st.mem[p.Loc] = s.symVal(s.fresh("havoc:"+p.Loc.Name), p.Loc.Typ)
			}
		}
	}
	if len(eff.types) > 0 {
		for l := range st.mem {
			if eff.types[typeKey(l.Typ)] || eff.anyFieldType(l.Typ) {
				s.noteLocWrite(st, l)
				st.mem[l] = s.symVal(s.fresh("havoc:"+l.Name), l.Typ)
			}
		}
		for a := range st.arrs {
			if eff.types["[]"+typeKey(a.Elem)] {
				c := s.arrContent(st, a)
				nc := &ArrContent{Cells: map[string]Val{}, Sym: true}
				if c.Leaves != nil {
					sorts, _ := s.leafSorts(a.Elem)
					for i, so := range sorts {
						nc.Leaves = append(nc.Leaves, s.declare(s.fresh(fmt.Sprintf("havoc:%s#%d", a.Name, i)), "(Array Int "+so+")"))
					}
				} else {
					// cells re-materialise under fresh names
					a2 := *a
					a2.Name = s.fresh("havoc:" + a.Name)
					_ = a2
					nc.Cells = map[string]Val{}
					nc.Sym = true
					a.Name = s.fresh(a.Name)
				}
				s.noteArrWrite(st, a)
				st.arrs[a] = nc
			}
		}
	}
	for it, is := range st.iters {
		if eff.iters {
			x.havocIter(st, it, is)
		}
	}
	for nx := range eff.nexts {
		if pv, ok := st.regs[nx].(Ptr); ok && pv.Loc != nil {
			if r, ok := st.mem[pv.Loc].(Rec); ok && len(r.F) == 2 {
				str := r.F[0].(Sc).T
				p := s.declare(s.fresh("rangepos"), "Int")
				st.assume(fmt.Sprintf("(and (<= 0 %s) (<= %s (strlen %s)))", p, p, str))
				st.mem[pv.Loc] = Rec{F: []Val{r.F[0], scInt(p)}}
			}
		}
	}
}

func phiName(p *ssa.Phi) string {
	if p.Comment != "" {
		return p.Comment
	}
	return p.Name()
}

type effects struct {
	nexts  map[ssa.Value]bool // string-range iterators advanced
	comps  map[string]bool
	types  map[string]bool // type keys of objects written through non-local pointers; "[]T" for slice elements
	allocs map[*ssa.Alloc]bool
	maps   map[ssa.Value]bool // maps updated (by their defining value)
	seen   map[*ssa.Function]bool
	iters  bool
}

func (e *effects) anyFieldType(t types.Type) bool { return false }

func rootOf(v ssa.Value) ssa.Value {
	for {
		switch a := v.(type) {
		case *ssa.FieldAddr:
			v = a.X
		case *ssa.IndexAddr:
			v = a.X
		default:
			return v
		}
	}
}

func (x *Exec) blockEffects(b *ssa.BasicBlock, eff *effects, depth int) {
	s := x.s
	for _, ins := range b.Instrs {
		switch in := ins.(type) {
		case *ssa.Next:
			if in.IsString {
				if eff.nexts == nil {
					eff.nexts = map[ssa.Value]bool{}
				}
				eff.nexts[in.Iter] = true
			}
		case *ssa.MapUpdate:
			if eff.maps == nil {
				eff.maps = map[ssa.Value]bool{}
			}
			eff.maps[in.Map] = true
		case *ssa.Store:
			root := rootOf(in.Addr)
			if a, ok := root.(*ssa.Alloc); ok {
				eff.allocs[a] = true
				continue
			}
			// through a pointer value or slice
			switch rt := root.Type().Underlying().(type) {
			case *types.Pointer:
				eff.types[typeKey(rt.Elem())] = true
			case *types.Slice:
				eff.types["[]"+typeKey(rt.Elem())] = true
			}
		case ssa.CallInstruction:
			cc := in.Common()
			if cc.IsInvoke() {
				ifn := ifaceName(cc.Value.Type())
				if t := s.Spec.TableByIf[ifn]; t != nil {
					switch cc.Method.Name() {
					case "Insert", "InsertReturningID", "Update", "Save", "Delete", "DeleteBy", "DeleteRange":
						for _, cn := range s.Spec.compsOfTable(t.Name) {
							eff.comps[cn] = true
						}
					}
					continue
				}
				if cc.Method.Name() == "Next" {
					eff.iters = true
				}
				if con := s.Spec.Contracts["("+ifn+")."+cc.Method.Name()]; con != nil {
					x.contractEffects(con, cc, eff)
				}
				continue
			}
			var callee *ssa.Function
			switch c := cc.Value.(type) {
			case *ssa.Function:
				callee = c
			case *ssa.MakeClosure:
				callee = c.Fn.(*ssa.Function)
			default:
				// closure stored in a register: find MakeClosure definitions conservatively
				if u, ok := cc.Value.(*ssa.UnOp); ok {
					if g, ok := u.X.(*ssa.Global); ok {
						if con := s.Spec.Contracts["var "+g.Pkg.Pkg.Path()+"."+g.Name()]; con != nil {
							x.contractEffects(con, cc, eff)
						}
					}
				}
			}
			if callee == nil {
				continue
			}
			if callee.Name() == "Next" || callee.Name() == "Value" {
				eff.iters = true
			}
			if con := s.Spec.Contracts[callee.String()]; con != nil && !con.Inline {
				x.contractEffects(con, cc, eff)
				continue
			}
			if len(callee.Blocks) > 0 && !eff.seen[callee] && depth < 8 {
				eff.seen[callee] = true
				for _, cb := range callee.Blocks {
					x.blockEffects(cb, eff, depth+1)
				}
			}
		}
	}
}

func (x *Exec) contractEffects(con *Contract, cc *ssa.CallCommon, eff *effects) {
	for c := range x.s.Spec.expandModifies(con.Modifies) {
		eff.comps[c] = true
	}
	for _, m := range con.Modifies {
		if strings.HasPrefix(m, "*") {
			// the pointee type of that parameter
			for i, a := range cc.Args {
				_ = i
				if pt, ok := a.Type().Underlying().(*types.Pointer); ok {
					root := rootOf(a)
					if al, ok := root.(*ssa.Alloc); ok {
						eff.allocs[al] = true
					} else {
						eff.types[typeKey(pt.Elem())] = true
					}
				}
			}
		}
	}
}

// ---------------------------------------------------------------------------------------------
// range over strings (used by ContentHash validation); maps are outside the subset
// ---------------------------------------------------------------------------------------------

type strRange struct {
	str string
	pos string
}

func (x *Exec) rangeInit(st *State, in *ssa.Range) {
	v := x.get(st, in.X)
	sc, ok := v.(Sc)
	if !ok {
		subsetf("range over %T (maps are outside the verifiable subset)", v)
	}
	l := x.s.newLoc(st, x.s.fresh("strrange"), nil, Rec{F: []Val{sc, scInt("0")}})
	st.regs[in] = Ptr{Loc: l, Nil: "false"}
}

func (x *Exec) rangeNext(st *State, fr *frame, in *ssa.Next) {
	if !in.IsString {
		subsetf("range over map")
	}
	s := x.s
	p := x.get(st, in.Iter).(Ptr)
	r := st.mem[p.Loc].(Rec)
	str, pos := r.F[0].(Sc).T, r.F[1].(Sc).T
	ok := fmt.Sprintf("(< %s (strlen %s))", pos, str)
	// rune and width: ASCII bytes are themselves with width 1; otherwise rune >= 128 and width 1..4
	b := fmt.Sprintf("(strbyte %s %s)", str, pos)
	rn := s.declare(s.fresh("rune"), "Int")
	w := s.declare(s.fresh("runew"), "Int")
	st.assume(fmt.Sprintf("(=> %s (and (=> (< %s 128) (and (= %s %s) (= %s 1))) (=> (>= %s 128) (and (>= %s 128) (>= %s 1) (<= %s 4))) (<= (+ %s %s) (strlen %s))))",
		ok, b, rn, b, w, b, rn, w, w, pos, w, str))
	st.mem[p.Loc] = Rec{F: []Val{r.F[0], scInt(ite(ok, "(+ "+pos+" "+w+")", pos))}}
	st.regs[in] = Rec{F: []Val{scBool(ok), scInt(pos), scInt(rn)}}
}

// loopScopePos: the source position at which the names of a loop clause are resolved: the opening
// brace of the body of the loop statement. There the variables of the enclosing scopes and of the
// loop statement itself (init / range variables) are visible, the variables declared inside the body
// are not (a clause talks about the loop head: a body-local that shadows an outer variable must never
// be what the clause means at the back edge). The loop statement is found in the syntax of fn as the
// For/Range statement containing every positioned instruction of the loop, with the same nesting
// depth as the SSA loop (innermost such when depths cannot be matched). Fallback: blockPos.
func loopScopePos(fn *ssa.Function, li *loopInfo) token.Pos {
	syn := fn.Syntax()
	if syn == nil {
		return blockPos(li.header)
	}
	var ps []token.Pos
	for b := range li.body {
		for _, ins := range b.Instrs {
			if p := ins.Pos(); p != token.NoPos {
				ps = append(ps, p)
			}
		}
	}
	for _, ins := range li.header.Instrs {
		if p := ins.Pos(); p != token.NoPos {
			ps = append(ps, p)
		}
	}
	if len(ps) == 0 {
		return blockPos(li.header)
	}
	type cand struct {
		lbrace token.Pos
		size   token.Pos
	}
	var best *cand
	var stack []ast.Node
	ast.Inspect(syn, func(n ast.Node) bool {
		if n == nil {
			stack = stack[:len(stack)-1]
			return true
		}
		stack = append(stack, n)
		if _, isLit := n.(*ast.FuncLit); isLit && n != syn {
			stack = stack[:len(stack)-1]
			return false // closures are functions of their own
		}
		var body *ast.BlockStmt
		switch s := n.(type) {
		case *ast.ForStmt:
			body = s.Body
		case *ast.RangeStmt:
			body = s.Body
		}
		if body == nil {
			return true
		}
		for _, p := range ps {
			if p < n.Pos() || p >= n.End() {
				return true
			}
		}
		// contains every instruction of the loop: the smallest such statement that is not smaller
		// than the loop (an inner loop statement holding all positioned instructions of an outer
		// SSA loop is possible only when the outer body declares nothing before it)
		c := &cand{lbrace: body.Lbrace, size: n.End() - n.Pos()}
		if best == nil || c.size < best.size {
			best = c
		}
		return true
	})
	if best == nil {
		return blockPos(li.header)
	}
	return best.lbrace
}

// blockPos: a source position inside the loop statement whose header block is b
func blockPos(b *ssa.BasicBlock) token.Pos {
	best := token.NoPos
	for _, ins := range b.Instrs {
		if p := ins.Pos(); p != token.NoPos && (best == token.NoPos || p < best) {
			best = p
		}
	}
	if best == token.NoPos {
		for _, pr := range b.Preds {
			for _, ins := range pr.Instrs {
				if p := ins.Pos(); p != token.NoPos && p > best {
					best = p
				}
			}
		}
	}
	return best
}

// captureArgType: static type of a captured whole argument ("<index>"), nil otherwise.
func (x *Exec) captureArgType(c Capture) types.Type {
	idx, err := strconv.Atoi(c.What)
	if err != nil {
		return nil
	}
	fn := x.s.Prog.Func(c.Callee)
	if fn == nil || idx >= len(fn.Params) {
		return nil
	}
	if x.capTypes == nil {
		x.capTypes = map[string]types.Type{}
	}
	x.capTypes[c.Name] = fn.Params[idx].Type()
	return fn.Params[idx].Type()
}
